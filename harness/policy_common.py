"""Shared by the policy-level properties (C07 policy level, C08, C09, C12 and the breaker events of C14/C15):
generator of call sequences on Policy objects sharing a CircuitBreaker (and optionally a Budget),
Gallina printers for the Policy model, oracles, the correspondence pipeline."""
import copy
import json
import os

import breaker_common as bc
import common
import runner_common as rc
from common import G

KLASSES = rc.KLASSES
STATE = {"CLOSED": "CLOSED", "OPEN": "OPEN", "HALF_OPEN": "HALF_OPEN", "closed": "CLOSED", "open": "OPEN",
         "half_open": "HALF_OPEN"}
EVN = bc.EVN


# ------------------------------------------------------------------------------------------------
# generator
# ------------------------------------------------------------------------------------------------
def gen_pseq(rng, o):
    brk = None
    counted = list(bc.DEFAULT_TRIP)
    if rng.random() < o.get("p_breaker", 0.92):
        trip = None if rng.random() < 0.4 else rng.sample(KLASSES, rng.randint(1, 4))
        cthr = {}
        if rng.random() < 0.3:
            for k in rng.sample(KLASSES, rng.randint(1, 2)):
                cthr[k] = rng.choice([1, 2, 2, 3])
        brk = {"thr": rng.choice([1, 1, 2, 2, 3]), "win": rng.choice([4, 64, 10**5]), "rto": rng.choice([2, 5, 8, 64]),
               "trip_on": trip, "cthr": cthr}
        counted = sorted(set((trip if trip is not None else bc.DEFAULT_TRIP) + list(cthr)))
    n_pol = 1 if rng.random() < 0.7 else 2
    policies = []
    for _ in range(n_pol):
        p = rc.gen_policy(rng, o)
        p["max_attempts"] = rng.choice(o.get("max_attempts", [1, 1, 2, 2, 3, 4]))
        p["no_retry"] = rng.random() < o.get("p_no_retry", 0.25)
        if p["no_retry"]:
            p.update(has_rc=False, handler_p=False, bs_p=False, sleeper_p=False)
        p["use_breaker"] = True
        policies.append(p)
    budget = None
    if rng.random() < o.get("p_budget", 0.2):
        budget = {"max": rng.choice([0, 1, 2, 3]), "win": rng.choice([3, 8, 64, 10**5])}
    rto = brk["rto"] if brk else 5
    win = brk["win"] if brk else 5
    calls = []
    oo = dict(o)
    oo["klass_pool"] = counted if counted and rng.random() < 0.8 else None
    for _ in range(rng.randint(2, o.get("max_calls", 7))):
        pidx = rng.randrange(n_pol)
        pol = policies[pidx]
        # Policy / AsyncPolicy, or RetryPolicy / AsyncRetryPolicy with the breaker attached to the Policy they wrap
        call = rc.gen_call(rng, pidx, pol, oo, entries=o.get("entries", ["policy", "policy", "policy", "retrypolicybrk"]))
        if pol["no_retry"] and call["entry"] == "retrypolicybrk":
            call["entry"] = "policy"
        if pol["no_retry"]:
            call["cfg"].update(handler_c=False, bs_c=False, sleeper_c=False, capture_tl=False)
            call["env"]["ops"] = call["env"]["ops"][:1]
            if call["env"]["ops"][0][0] == "V":
                call["env"]["ops"][0][2] = None
            if call["cfg"]["has_abort"]:
                call["env"]["abort"] = [rng.random() < 0.3]
        for op in call["env"]["ops"]:
            if op[0] == "R" and rng.random() < o.get("p_nested_coe", 0.06):
                op[0] = "O"
        call["gap"] = max(0, rng.choice([0, 0, 1, rto - 1, rto, rto + 1, min(win, 70) + 1]))
        calls.append(call)
    return {"t0": rng.choice([0, 5, 1000, 2**36]), "budget": budget, "breaker": brk, "policies": policies, "calls": calls}


# ------------------------------------------------------------------------------------------------
# Gallina printers
# ------------------------------------------------------------------------------------------------
def g_evn(x):
    return G.opt(EVN.get(x, "N_OTHER") if x is not None else None)


def g_pev(e):
    t = e[0]
    if t == "KA":
        st = STATE.get(e[2])
        return G.con("PAllow", G.b(e[1]), st or "CLOSED", g_evn(e[3]) if st else "(Some N_OTHER)")
    if t == "KS":
        return G.con("PSucc", g_evn(e[1]))
    if t == "KF":
        return G.con("PFail", e[1], g_evn(e[2])) if e[1] in KLASSES else G.con("PSucc", "(Some N_OTHER)")
    if t == "KC":
        return "PCancel"
    if t in ("M", "L") and isinstance(e[4], dict) and "state" in e[4]:
        tags = e[4]
        ok = (e[2] == 0 and e[3] == 0 and STATE.get(tags["state"]) and "extra" not in tags and "err" not in tags
              and "stop_reason" not in tags and "cause" not in tags and tags.get("operation") in (None, "opname")
              and tags.get("class") in (None,) + tuple(KLASSES) and (t == "M" or e[5] is None))
        name = EVN.get(e[1], "N_OTHER") if ok else "N_OTHER"
        return G.con("PBMetric" if t == "M" else "PBLog", name, STATE.get(tags["state"]) or "CLOSED",
                     G.opt(tags.get("class") if tags.get("class") in KLASSES else None), G.b("operation" in tags))
    return G.con("PE", rc.g_event(e))


def g_pdel(d):
    if d[0] == "circuit_open":
        st = STATE.get(d[1])
        return G.con("PDOpen", st) if st else "PUnexpected"
    if d[0] == "outcome" and isinstance(d[1].get("exc"), str) and d[1]["exc"].startswith("circuit_open:"):
        o = d[1]
        st = STATE.get(o["exc"].split(":", 1)[1])
        plain = (o["ok"] is False and o["value"] is None and o["stop"] is None and o["attempts"] == 0 and o["class"] is None
                 and o["res"] is None and o["cause"] is None and o["next"] is None and o["tl"] is None and o["elapsed"] == 0)
        return G.con("PDOutcomeOpen", st) if st and plain else "PUnexpected"
    return G.con("PD", rc.g_delivery(d))


def g_pcase(seq, obs):
    calls = []
    for call in seq["calls"]:
        pol = seq["policies"][call["policy"]]
        b = seq["budget"] if pol.get("use_budget", True) and not pol.get("no_retry") else None
        coe = [op[0] == "O" for op in call["env"]["ops"]]
        calls.append(G.con("mk_pcall", "MCall" if call["mode"] == "call" else "MExec", G.b(not pol.get("no_retry")),
                           rc.g_cfg(call["cfg"], b), rc.g_env(call["env"]), G.lst(coe, G.b), G.z(call.get("gap", 0))))
    ob = [G.pair(g_pdel(o["delivery"]), G.lst(o["trace"], g_pev)) for o in obs]
    brk = "None" if seq["breaker"] is None else "(Some " + bc.g_cfg(seq["breaker"]) + ")"
    return G.rec(pk_breaker=brk, pk_calls=G.lst(calls), pk_t0=G.z(seq["t0"]), pk_obs=G.lst(ob))


# ------------------------------------------------------------------------------------------------
# oracles (property statements over one sequence's implementation traces)
# ------------------------------------------------------------------------------------------------
def call_summary(call, pol, o):
    tr = o["trace"]
    ka = [e for e in tr if e[0] == "KA"]
    recs = [e for e in tr if e[0] in ("KS", "KF", "KC")]
    inv = [e for e in tr if e[0] == "I"]
    return ka, recs, inv


def final_kind(call, pol, o):
    """the record the property demands for an admitted call, from what the caller got and the script"""
    d = o["delivery"]
    inv = [e for e in o["trace"] if e[0] == "I"]
    n = len(inv)
    ops = call["env"]["ops"]
    last = (ops[n - 1] if 0 < n <= len(ops) else ["V", 0, None, None]) if n else None
    aborted = (any(e[0] == "P" and e[1] for e in o["trace"]) or any(e[0] == "H" and e[5] == "A" for e in o["trace"])
               or (last is not None and last[0] == "A"))
    if aborted:
        return ("C", None)
    if d[0] == "return" or (d[0] == "outcome" and d[1]["ok"]):
        return ("S", None)
    if d[0] in ("abort", "cancel", "cancel_sleep") or (d[0] == "outcome" and d[1]["stop"] == "ABORTED"):
        return ("C", None)
    if d[0] == "nested":
        return ("F", "TRANSIENT")
    if d[0] == "exhausted":
        return ("F", d[3] or "UNKNOWN")
    if d[0] == "outcome":
        return ("F", d[1]["class"] or "UNKNOWN")
    if d[0] == "raise_op":
        if last and last[0] == "O":
            return ("C*", None)        # nested CircuitOpenError: not counted (settled as cancel)
        return ("F", last[2] if last and last[2] else "UNKNOWN")
    if d[0] == "runtime_error":
        return ("F", "UNKNOWN")
    return None


def oracle_c09(seq, obs):
    if seq["breaker"] is None:
        return None
    for j, (call, o) in enumerate(zip(seq["calls"], obs)):
        pol = seq["policies"][call["policy"]]
        ka, recs, inv = call_summary(call, pol, o)
        d = o["delivery"]
        pre_abort = pol.get("no_retry") and call["cfg"]["has_abort"] and call["env"]["abort"][:1] == [True]
        if pre_abort:
            continue   # known finding C07(a): record_cancel before admission; C09 speaks of admitted calls
        if len(ka) != 1:
            return f"call #{j}: breaker.allow() called {len(ka)} times"
        if not ka[0][1]:
            if recs:
                return f"call #{j}: rejected by the breaker but {recs[0][0]} was recorded"
            continue
        if len(recs) != 1:
            return f"call #{j}: admitted call reported to the breaker {len(recs)} times: {[r[0] for r in recs]} (delivery {d[:2]})"
        want = final_kind(call, pol, o)
        if want is None:
            continue
        r = recs[0]
        got = ("S", None) if r[0] == "KS" else ("C", None) if r[0] == "KC" else ("F", r[1])
        w = ("C", None) if want[0] == "C*" else want
        if got != w:
            return f"call #{j}: delivery {d[:4]} must be recorded as {w} but the breaker was told {got}"
    return None


def oracle_c08(seq, obs):
    """every admitted call settles: after a call has ended no probe is in flight (calls are sequential)"""
    if seq["breaker"] is None:
        return None
    for j, (call, o) in enumerate(zip(seq["calls"], obs)):
        ka = [e for e in o["trace"] if e[0] == "KA"]
        recs = [e for e in o["trace"] if e[0] in ("KS", "KF", "KC")]
        if ka and ka[0][1] and not recs:
            return (f"call #{j} ({call['mode']}{' async' if call['async'] else ''}): admitted by the breaker, ended with "
                    f"{o['delivery'][:3]} and never told the breaker that it is over")
        if o.get("probe"):
            return (f"call #{j}: ended with {o['delivery'][:3]} leaving the breaker {o.get('breaker_state')} with a probe in "
                    f"flight although no call is outstanding")
    return None


def oracle_c07(seq, obs):
    if seq["breaker"] is None:
        return None
    rto = seq["breaker"]["rto"]
    opened_at = None
    for j, (call, o) in enumerate(zip(seq["calls"], obs)):
        ka = [e for e in o["trace"] if e[0] == "KA"]
        inv = [e for e in o["trace"] if e[0] == "I"]
        recs = [e for e in o["trace"] if e[0] in ("KS", "KF", "KC")]
        d = o["delivery"]
        if inv and not ka and call["entry"].split(".")[0] in ("policy", "retrypolicybrk"):
            # a call that is never put to the breaker can never be rejected: no fail-fast, no single probe
            return (f"call #{j} ({call['entry']}): the operation was invoked without the policy's breaker being asked for admission "
                    f"(breaker object: a CircuitBreaker subclass with len() == {0 if seq.get('falsy_shared', True) else 1})")
        if ka:
            allowed, state, event, t = ka[0][1], ka[0][2], ka[0][3], ka[0][4]
            if opened_at is not None and t - opened_at < rto and allowed:
                return f"call #{j}: admitted {t - opened_at} ticks after the breaker opened (recovery_timeout {rto})"
            if not allowed:
                if inv:
                    return f"call #{j}: rejected by the breaker but the operation was invoked"
                if recs:
                    return f"call #{j}: rejected by the breaker but {recs[0][0]} was recorded"
                ok = d[0] == "circuit_open" or (d[0] == "outcome" and not d[1]["ok"] and d[1]["attempts"] == 0
                                                and str(d[1]["exc"]).startswith("circuit_open:"))
                if not ok:
                    return f"call #{j}: rejected by the breaker but the caller got {d[:2]}"
            if opened_at is not None and t - opened_at >= rto and not allowed and state == "OPEN":
                return f"call #{j}: still rejected {t - opened_at} ticks after opening (recovery_timeout {rto})"
        # track opening instants from the records' results
        for e in o["trace"]:
            if e[0] == "KF" and e[2] == "circuit_opened":
                opened_at = o["end"]
            if e[0] == "KS" and e[1] == "circuit_closed":
                opened_at = None
            if e[0] == "KA" and e[3] == "circuit_half_open":
                pass
    return None


def oracle_c14p(seq, obs):
    """breaker transitions and rejections are reported with attempt 0, sleep 0 and the breaker's state (after the operation);
    failures carry the class; the metric hook and the log hook receive the same breaker events"""
    for j, (call, o) in enumerate(zip(seq["calls"], obs)):
        tr = o["trace"]
        last_state = None
        for idx, e in enumerate(tr):
            if e[0] == "KA":
                last_state, expect, klass = e[2], e[3], None
            elif e[0] == "KS":
                last_state, expect, klass = e[2], e[1], None
            elif e[0] == "KF":
                last_state, expect, klass = e[3], e[2], e[1]
            else:
                continue
            want_sinks = [t for t, flag in (("M", call["cfg"]["has_metric"]), ("L", call["cfg"]["has_log"])) if flag]
            got = tr[idx + 1: idx + 1 + len(want_sinks)] if expect is not None else []
            if expect is None:
                nxt = tr[idx + 1] if idx + 1 < len(tr) else None
                if nxt is not None and nxt[0] in ("M", "L") and isinstance(nxt[4], dict) and "state" in nxt[4]:
                    return f"call #{j}: breaker event {nxt[1]} reported although the breaker reported no transition"
                continue
            if [g[0] for g in got] != want_sinks:
                return f"call #{j}: breaker event {expect} must reach {want_sinks}, got {[g[:2] for g in got]}"
            for g in got:
                tags = g[4]
                if g[1] != expect or g[2] != 0 or g[3] != 0:
                    return f"call #{j}: breaker event {expect} reported as {g[1]} attempt={g[2]} sleep={g[3]}"
                if STATE.get(tags.get("state")) != last_state:
                    return f"call #{j}: {expect} reported with state tag {tags.get('state')} but the breaker is {last_state}"
                if (tags.get("class") or None) != klass:
                    return f"call #{j}: {expect} reported with class tag {tags.get('class')}, expected {klass}"
    return None


def oracle_c11p(seq, obs):
    """execute() through a Policy (with or without retry component): the outcome is faithful"""
    for j, (call, o) in enumerate(zip(seq["calls"], obs)):
        d = o["delivery"]
        if call["mode"] != "execute" or d[0] != "outcome":
            continue
        oc = d[1]
        inv = [e for e in o["trace"] if e[0] == "I"]
        if oc["attempts"] != len(inv):
            return (f"call #{j} ({'no retry component' if seq['policies'][call['policy']].get('no_retry') else 'retry'}): "
                    f"attempts={oc['attempts']} but the operation was invoked {len(inv)} time(s) (outcome stop_reason={oc['stop']})")
        ops = call["env"]["ops"]
        last = ops[len(inv) - 1] if 0 < len(inv) <= len(ops) else None
        if oc["ok"]:
            if oc["value"] != len(inv) or any(oc[f] is not None for f in ("stop", "class", "exc", "res", "cause", "next")):
                return f"call #{j}: successful outcome {oc}"
        elif last is not None and last[0] in ("R", "O", "N") and oc["stop"] != "ABORTED" and not str(oc["exc"]).startswith("circuit_open:"):
            if oc["cause"] == "exception" and oc["exc"] != len(inv):
                return f"call #{j}: last_exception is not the exception raised by the last attempt ({oc['exc']} vs attempt {len(inv)})"
            if oc["cause"] is None and oc["class"] is None and len(inv) > 0:
                return f"call #{j}: the operation was invoked and failed but the outcome describes no failure: {oc}"
        if not oc["ok"]:
            # next_sleep_s is the deferred delay, present exactly when the run stopped because the sleep handler deferred
            deferred = [e for e in o["trace"] if e[0] == "H" and e[5] == "D"]
            if (oc["next"] is not None) != (oc["stop"] == "SCHEDULED"):
                return f"call #{j}: next_sleep_s={oc['next']} with stop_reason={oc['stop']}"
            if deferred and oc["stop"] == "SCHEDULED" and oc["next"] != deferred[-1][4]:
                return f"call #{j}: the handler deferred a delay of {deferred[-1][4]} ticks but next_sleep_s={oc['next']}"
    return None


ORACLES = {"C09": oracle_c09, "C08": oracle_c08, "C07": oracle_c07, "C14P": oracle_c14p, "C11P": oracle_c11p}


# ------------------------------------------------------------------------------------------------
# pipeline
# ------------------------------------------------------------------------------------------------
def run_impl(seqs, jobs=8):
    return common.run_driver("runner_driver", seqs, jobs=jobs)


def compare_in_coq(chk, seqs, obs, proj, name="policy", shard=120):
    lits = [g_pcase(s, o) for s, o in zip(seqs, obs)]
    return common.coq_failing(chk.workdir, name, "Base Budget Breaker Runner Corr Policy PolicyCorr", "pcase",
                              f"pcase_ok {proj}", lits, shard=shard)


def model_eval(chk, seq, obs):
    lit = g_pcase(seq, obs)
    rcode, out, err = common.coq_eval(chk.workdir, "pmodel", "Base Budget Breaker Runner Corr Policy PolicyCorr",
                                      f"let k := {lit} in policy_seq (pk_breaker k) (pk_calls k) (pk_t0 k) [] kinit")
    return out[-6000:] if rcode == 0 else err[-2000:]


def load_corpus(pid):
    p = os.path.join(common.VERIF, "corpus", f"{pid}.json")
    return json.load(open(p)) if os.path.exists(p) else []


def shrink(seq, fails):
    cur = seq
    for _ in range(8):
        cands = []
        for j in range(len(cur["calls"])):
            if len(cur["calls"]) > 1:
                t = copy.deepcopy(cur)
                del t["calls"][j]
                cands.append(t)
        for j, c in enumerate(cur["calls"]):
            for key in ("metric_raises", "log_raises", "bs_raises", "sleep_cancel", "bs_cancel"):
                if c["env"][key]:
                    t = copy.deepcopy(cur)
                    t["calls"][j]["env"][key] = []
                    cands.append(t)
            if len(c["env"]["ops"]) > 1:
                t = copy.deepcopy(cur)
                t["calls"][j]["env"]["ops"] = c["env"]["ops"][:-1]
                cands.append(t)
        if not cands:
            break
        res = fails(cands)
        nxt = next((s for s, bad in zip(cands, res) if bad), None)
        if nxt is None:
            break
        cur = nxt
    return cur


def stats(seqs, obs):
    st = {"calls": 0, "admitted": 0, "rejected": 0, "records": {"KS": 0, "KF": 0, "KC": 0}, "opened": 0, "half_open": 0,
          "closed_again": 0, "no_retry_calls": 0, "async_calls": 0, "deliveries": {}, "nested_coe_ops": 0, "entries": {}}
    for s, ob in zip(seqs, obs):
        for call, o in zip(s["calls"], ob):
            st["calls"] += 1
            st["async_calls"] += 1 if call["async"] else 0
            st["entries"][call["entry"]] = st["entries"].get(call["entry"], 0) + 1
            st["no_retry_calls"] += 1 if s["policies"][call["policy"]].get("no_retry") else 0
            st["nested_coe_ops"] += sum(1 for op in call["env"]["ops"] if op[0] == "O")
            st["deliveries"][o["delivery"][0]] = st["deliveries"].get(o["delivery"][0], 0) + 1
            for e in o["trace"]:
                if e[0] == "KA":
                    st["admitted" if e[1] else "rejected"] += 1
                    st["half_open"] += 1 if e[3] == "circuit_half_open" else 0
                elif e[0] in st["records"]:
                    st["records"][e[0]] += 1
                    if e[0] == "KF" and e[2] == "circuit_opened":
                        st["opened"] += 1
                    if e[0] == "KS" and e[1] == "circuit_closed":
                        st["closed_again"] += 1
    return st


def nontrivial(seq, ob):
    """non-trivial = the breaker left CLOSED at least once (a rejection, a probe) or a non-success record"""
    for o in ob:
        for e in o["trace"]:
            if (e[0] == "KA" and (not e[1] or e[3])) or e[0] in ("KF", "KC"):
                return common.digest([[x["trace"], x["delivery"]] for x in ob])
    return None


def run_policy_check(chk, pid, proj, opts, oracle_pid=None, n_quick=300, n_thorough=5000, extra_seqs=None,
                     extra_oracle=None, known_sig=None, theorems_ok=None, cov_key=None, keep_result=None):
    oracle = ORACLES.get(oracle_pid or pid)
    if theorems_ok is None:
        theorems_ok = chk.check_theorems()
    seqs = list(load_corpus(pid))
    n = n_quick if chk.tier == "quick" else n_thorough
    seqs += [gen_pseq(chk.rng, opts) for _ in range(n)]
    if extra_seqs:
        seqs += extra_seqs
    obs = run_impl(seqs, jobs=min(16, common.NPROC))
    drv = [(i, o["delivery"]) for i, ob in enumerate(obs) for o in ob if o["delivery"][0] == "driver_error"]
    if drv:
        raise common.DriverError("runner_driver failed on a script: " + str(drv[0][1][1])[-1500:])
    bad = []
    if oracle:
        import oracles
        bad = [(i, m) for i, (s, o) in enumerate(zip(seqs, obs)) for m in [oracles.runaway(s, o) or oracle(s, o)] if m]
    if extra_oracle:
        bad += extra_oracle(seqs, obs)
    failing, errors = [], []
    if theorems_ok:
        failing, errors = compare_in_coq(chk, seqs, obs, proj)
    st = stats(seqs, obs)
    distinct = {k for k in (nontrivial(s, o) for s, o in zip(seqs, obs)) if k}
    cov_target = chk.coverage if cov_key is None else chk.coverage.setdefault(cov_key, {})
    if cov_key is not None:
        chk.coverage["evaluations"] = chk.coverage.get("evaluations", 0) + len(seqs)
        chk.coverage["distinct_nontrivial"] = chk.coverage.get("distinct_nontrivial", 0) + len(distinct)
        chk.coverage["traces_validated_against_impl"] = chk.coverage.get("traces_validated_against_impl", 0) + (0 if errors else st["calls"])
    cov_target.update(
        evaluations=len(seqs), distinct_nontrivial=len(distinct),
        traces_validated_against_impl=0 if errors else st["calls"],
        rule="sequences of 2-7 calls (sync/async, call/execute, with and without a retry component) on Policy objects "
        "sharing one CircuitBreaker (and sometimes a Budget), with scripted operation outcomes incl. nested "
        "RetryExhaustedError / CircuitOpenError / cancellation, and gaps around recovery_timeout; non-trivial = the breaker "
        "rejected a call, admitted a probe, or was told a failure/cancel; distinct by the full observed traces",
        samples=[{"script": seqs[i], "observed": obs[i]} for i in ([len(seqs) - 1] if seqs else [])],
        distribution=st, projection=proj,
    )
    if errors:
        chk.violation({"kind": "correspondence-error", "what": "cases file did not evaluate", "errors": errors[:3]}, no_input=True)
    if keep_result is not None:
        keep_result.update(seqs=seqs, obs=obs, bad=bad, failing=failing)
    if keep_result is not None and keep_result.get("defer"):
        return seqs, obs

    def fails_batch(cands):
        ob = run_impl(cands, jobs=4)
        return [bool(oracle(s, o)) for s, o in zip(cands, ob)]

    if bad:
        i, msg = bad[0]
        small = shrink(seqs[i], fails_batch) if oracle and oracle(seqs[i], obs[i]) else seqs[i]
        so = run_impl([small], jobs=1)[0]
        chk.violation({"kind": "oracle", "what": (oracle(small, so) if oracle else None) or msg, "script": small, "observed": so,
                       "driver": "runner_driver", "oracle": oracle_pid or pid, "also_failing": len(bad),
                       "model_disagrees_on_original": i in failing,
                       "model": model_eval(chk, small, so) if theorems_ok else None})
    elif failing:
        i = failing[0]
        chk.violation({"kind": "correspondence", "what": f"PolicyCorr.pcase_ok {proj}: the implementation's observable behaviour "
                       f"differs from the Coq model of the policy wrapper on the events {pid} is about, so the theorems of "
                       f"Props/{pid}.v no longer describe this code; the property oracle found no violated clause",
                       "script": seqs[i], "observed": obs[i], "driver": "runner_driver", "oracle": oracle_pid or pid,
                       "disagreements": len(failing), "model": model_eval(chk, seqs[i], obs[i])}, no_input=True)
    return seqs, obs


def replay_policy(path):
    r = json.load(open(path))
    so = run_impl([r["script"]], jobs=1)[0]
    oracle = ORACLES.get(r.get("oracle", r.get("property")))
    msg = oracle(r["script"], so) if oracle else None
    print(json.dumps(so)[:3000])
    print("oracle:", msg or "holds")
    return 1 if msg else 0


# ------------------------------------------------------------------------------------------------
# C07: policy-level part and the two known findings
# ------------------------------------------------------------------------------------------------
C07_OPTS = {"p_no_retry": 0.3, "max_calls": 8, "p_special": 0.15}


def run_c07_policy_part(chk, theorems_ok):
    n = 250 if chk.tier == "quick" else 4000
    seqs = [gen_pseq(chk.rng, C07_OPTS) for _ in range(n)]
    seqs = [s for s in seqs if s["breaker"] is not None]
    obs = run_impl(seqs, jobs=min(16, common.NPROC))
    drv = [o["delivery"] for ob in obs for o in ob if o["delivery"][0] == "driver_error"]
    if drv:
        raise common.DriverError("runner_driver failed on a policy script: " + str(drv[0][1])[-1500:])
    failing, errors = ([], [])
    if theorems_ok:
        failing, errors = compare_in_coq(chk, seqs, obs, "proj_P07", name="policy07")
    import oracles
    bad = [(i, m) for i, (s, o) in enumerate(zip(seqs, obs)) for m in [oracles.runaway(s, o) or oracle_c07(s, o)] if m]
    st = stats(seqs, obs)
    chk.coverage["policy_level"] = {
        "evaluations": len(seqs), "calls": st["calls"], "rejected_calls": st["rejected"], "probes_admitted": st["half_open"],
        "closed_again": st["closed_again"], "projection": "proj_P07",
        "traces_validated_against_impl": 0 if errors else st["calls"],
        "sample": {"script": seqs[-1], "observed": obs[-1]} if seqs else None,
    }
    chk.coverage["evaluations"] = chk.coverage.get("evaluations", 0) + len(seqs)
    chk.coverage["distinct_nontrivial"] = chk.coverage.get("distinct_nontrivial", 0) + len(
        {k for k in (nontrivial(s, o) for s, o in zip(seqs, obs)) if k})
    if errors:
        chk.violation({"kind": "correspondence-error", "what": "policy cases file did not evaluate", "errors": errors[:3]}, no_input=True)
    if bad:
        i, msg = bad[0]

        def fails_batch(cands):
            ob = run_impl(cands, jobs=4)
            return [bool(oracle_c07(s, o)) for s, o in zip(cands, ob)]

        small = shrink(seqs[i], fails_batch)
        so = run_impl([small], jobs=1)[0]
        chk.violation({"kind": "oracle", "part": "policy-level", "what": oracle_c07(small, so) or msg, "script": small,
                       "observed": so, "driver": "runner_driver", "oracle": "C07", "also_failing": len(bad)})
    elif failing:
        i = failing[0]
        chk.violation({"kind": "correspondence", "part": "policy-level",
                       "what": "PolicyCorr.pcase_ok proj_P07: admission decisions / invocations / records through the policy "
                       "differ from the Coq model; the property oracle found no violated clause", "script": seqs[i],
                       "observed": obs[i], "driver": "runner_driver", "oracle": "C07", "disagreements": len(failing),
                       "model": model_eval(chk, seqs[i], obs[i])}, no_input=True)
    # the two known findings, replayed on the real code on every run
    res = common.run_driver("c07_findings_driver", [0])[0]
    chk.coverage["known_findings_replayed"] = res
    if res.get("unadmitted_cancel"):
        chk.violation({"kind": "finding", "what": "a policy call without retry component whose abort_if answers True calls "
                       "record_cancel before asking for admission and frees another call's half-open probe slot: two probes in flight",
                       "replay": "harness/drivers/c07_findings_driver.py unadmitted_cancel()"}, signature="C07-unadmitted-cancel")
    if res.get("stale_settle"):
        chk.violation({"kind": "finding", "what": "a call admitted while CLOSED that ends while the breaker is HALF_OPEN settles "
                       "the probe's slot: its success closes the circuit although the probe has not reported",
                       "replay": "harness/drivers/c07_findings_driver.py stale_settle()"}, signature="C07-stale-settle")


def replay(path):
    return replay_policy(path)


# ------------------------------------------------------------------------------------------------
# C07: interleaved policy calls on one breaker (drivers/interleave_driver.py, coq InterleaveCorr.v)
# ------------------------------------------------------------------------------------------------
def gen_interleaving(rng):
    import breaker_common as bc
    rto = rng.choice([1, 2, 3, 5])
    brk = {"thr": rng.choice([1, 1, 2]), "win": rng.choice([8, 64]), "rto": rto,
           "trip_on": rng.choice([None, ["TRANSIENT", "SERVER_ERROR"], ["TRANSIENT"]]), "cthr": {}}
    n = rng.randint(2, 5)
    calls = []
    for j in range(n):
        retry = rng.random() < 0.6
        ma = rng.choice([1, 1, 2]) if retry else 1
        fail_bias = 0.8 if j < 2 else 0.5        # the first calls tend to open the circuit
        ops = [(["R", rng.choice(["TRANSIENT", "TRANSIENT", "SERVER_ERROR", "PERMANENT"])] if rng.random() < fail_bias else ["V"])
               for _ in range(ma)]
        calls.append({"retry": retry, "max_attempts": ma, "mode": rng.choice(["call", "execute"]), "ops": ops})
    sched = []
    for _ in range(rng.randint(n, 4 * n + 2)):
        sched.append([rng.randrange(n), rng.choice([0, 0, 0, 1, max(0, rto - 1), rto, rto + 1]), "cancel" if rng.random() < 0.08 else "go"])
    return {"breaker": brk, "t0": rng.choice([0, 7, 1000]), "calls": calls, "schedule": sched, "_bc": None}


def g_icase(sc, ob):
    import breaker_common as bc
    rows = []
    for e in ob["log"]:
        if e[0] == "A":
            _, i, t, allowed, dstate, ev, after = e
            op = G.con("HAdmit", f"{int(i)}%nat", G.z(t))
            rows.append(G.rec(io_op=op, io_allowed=f"(Some {G.b(allowed)})", io_event=G.opt(bc.EVN.get(ev) if ev else None),
                              io_state=after[0], io_probe=G.b(after[1])))
        else:
            _, i, kind, klass, t, ev, after = e
            k = {"succ": "SSucc", "cancel": "SCancel"}.get(kind) or G.con("SFail", klass)
            op = G.con("HSettle", f"{int(i)}%nat", k, G.z(t))
            rows.append(G.rec(io_op=op, io_allowed="None", io_event=G.opt(bc.EVN.get(ev) if ev else None),
                              io_state=after[0], io_probe=G.b(after[1])))
    return G.rec(ic_cfg=bc.g_cfg(sc["breaker"]), ic_hist="[" + "; ".join(rows) + "]")


def oracle_interleaving(sc, ob, in_scope):
    """C07 over an interleaved history: at most one admitted half-open probe outstanding, every other caller rejected while it
    is; every admitted call settles exactly once, a rejected call never (C08/C09, needed for the former to mean anything)"""
    out = {}          # call -> state it was admitted in
    settled = {}
    for e in ob["log"]:
        if e[0] == "A":
            _, i, t, allowed, dstate, ev, after = e
            probes = [j for j, s in out.items() if s == "HALF_OPEN"]
            if in_scope and probes and after[0] == "HALF_OPEN" and allowed:
                return f"call {i} admitted at t={t} while call {probes[0]} is the outstanding half-open probe"
            if i in out or i in settled:
                return f"call {i} asked for admission twice"
            if allowed:
                out[i] = dstate
        else:
            _, i, kind, klass, t, ev, after = e
            if i not in out:
                return f"call {i} reported {kind} to the breaker without being admitted (or twice)"
            settled[i] = kind
            del out[i]
    if out:
        return f"calls {sorted(out)} were admitted and never told the breaker that they are over"
    for i, fin in enumerate(ob["calls"]):
        if fin[0] in ("unfinished", "other", "return?", "driver_error"):
            return f"call {i} ended with {fin}"
        if fin[0] == "rejected" and i in settled:
            return f"call {i} was rejected and still reported to the breaker"
        if fin[0] == "value" and settled.get(i) != "succ":
            return f"call {i} returned its value but the breaker was told {settled.get(i)}"
        if fin[0] == "cancelled" and settled.get(i, "cancel") != "cancel":
            return f"call {i} was cancelled but the breaker was told {settled.get(i)}"
    return None


def run_c07_interleave_part(chk, theorems_ok):
    n = 400 if chk.tier == "quick" else 8000
    scs = [gen_interleaving(chk.rng) for _ in range(n)]
    for s in scs:
        s.pop("_bc", None)
    obs = common.run_driver("interleave_driver", scs, jobs=8)
    drv = [o["calls"][0] for o in obs if o["calls"] and o["calls"][0][0] == "driver_error"]
    if drv:
        raise common.DriverError("interleave_driver failed: " + str(drv[0][1])[-1500:])
    failing, out_of_scope, errors = [], [], []
    if theorems_ok:
        lits = [g_icase(s, o) for s, o in zip(scs, obs)]
        failing, errors = common.coq_failing(chk.workdir, "ileave", "Base Breaker Corr Policy PolicyInterleave InterleaveCorr", "icase",
                                             "icase_ok", lits, shard=400)
        out_of_scope, e2 = common.coq_failing(chk.workdir, "iscope", "Base Breaker Corr Policy PolicyInterleave InterleaveCorr", "icase",
                                              "icase_in_scope", lits, shard=400)
        errors += e2
    oos = set(out_of_scope)
    bad = [(i, m) for i, (s, o) in enumerate(zip(scs, obs)) for m in [oracle_interleaving(s, o, i not in oos)] if m]
    overlapped = sum(1 for o in obs if any(e[0] == "A" and e[3] for e in o["log"]) and _overlap(o["log"]))
    probes = sum(1 for o in obs for e in o["log"] if e[0] == "A" and e[3] and e[4] == "HALF_OPEN")
    chk.coverage["interleavings"] = {
        "scenarios": len(scs), "with_overlapping_admitted_calls": overlapped, "probes_admitted": probes,
        "rejected_admissions": sum(1 for o in obs for e in o["log"] if e[0] == "A" and not e[3]),
        "outside_theorem_hypothesis_stale_settle": len(oos), "compared_in_coq": 0 if errors else len(scs),
        "sample": {"scenario": scs[0], "observed": obs[0]},
    }
    chk.coverage["evaluations"] = chk.coverage.get("evaluations", 0) + len(scs)
    if errors:
        chk.violation({"kind": "correspondence-error", "what": "interleaving cases file did not evaluate", "errors": errors[:3]}, no_input=True)
    if bad:
        i, msg = min(bad, key=lambda x: len(scs[x[0]]["schedule"]))
        chk.violation({"kind": "oracle", "part": "interleavings", "what": msg, "scenario": scs[i], "observed": obs[i],
                       "driver": "interleave_driver", "also_failing": len(bad)})
    elif failing:
        i = failing[0]
        chk.violation({"kind": "correspondence", "part": "interleavings", "what": "InterleaveCorr.icase_ok: admission decisions, events or "
                       "breaker state under interleaved policy calls differ from the Breaker.v model on the same history; the oracle "
                       "(single probe, one settlement per admitted call) found no violated clause", "scenario": scs[i],
                       "observed": obs[i], "driver": "interleave_driver", "disagreements": len(failing)}, no_input=True)


def run_c14_interleave_part(chk):
    """C14 under overlapping calls: every breaker event a hook receives names the state the breaker is in at that moment (a rejection
    while a probe is in flight says half_open).  Oracle on the implementation, scenarios of the C07 interleaving generator."""
    n = 300 if chk.tier == "quick" else 4000
    scs = [gen_interleaving(chk.rng) for _ in range(n)]
    for s in scs:
        s.pop("_bc", None)
    obs = common.run_driver("interleave_driver", scs, jobs=8)
    drv = [o["calls"][0] for o in obs if o["calls"] and o["calls"][0][0] == "driver_error"]
    if drv:
        raise common.DriverError("interleave_driver failed: " + str(drv[0][1])[-1500:])
    bad = [(i, o["event_state_tags_wrong"]) for i, o in enumerate(obs) if o.get("event_state_tags_wrong")]
    chk.coverage["interleaved_breaker_events"] = {
        "scenarios": len(scs), "rejections_while_half_open": sum(1 for o in obs for e in o["log"] if e[0] == "A" and not e[3] and e[4] == "HALF_OPEN"),
        "note": "oracle only: the state tag of every circuit_* event equals the breaker's state when the hook receives it"}
    chk.coverage["evaluations"] = chk.coverage.get("evaluations", 0) + len(scs)
    if bad:
        i, w = min(bad, key=lambda x: len(scs[x[0]]["schedule"]))
        chk.violation({"kind": "oracle", "part": "interleaved-events", "what": f"breaker event {w[0][0]} carried state={w[0][1]!r} while the breaker "
                       f"was {w[0][2]!r}", "scenario": scs[i], "observed": obs[i], "driver": "interleave_driver", "also_failing": len(bad)})


def _overlap(log):
    out = set()
    for e in log:
        if e[0] == "A" and e[3]:
            if out:
                return True
            out.add(e[1])
        elif e[0] == "S":
            out.discard(e[1])
    return False


def replay_interleaving(path):
    r = json.load(open(path))
    o = common.run_driver("interleave_driver", [r["scenario"]])[0]
    if r.get("part") == "interleaved-events":
        print("observed:", json.dumps(o)[:1500])
        print("oracle:", o.get("event_state_tags_wrong") or "holds")
        return 1 if o.get("event_state_tags_wrong") else 0
    m = oracle_interleaving(r["scenario"], o, True)
    print("observed:", json.dumps(o)[:1500])
    print("oracle:", m or "holds")
    return 1 if m else 0
