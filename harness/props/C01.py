"""C01 — see coq/theories/Props/C01.v (theorems) and DESIGN.md §4.
Tie: scripted call sequences through Retry/AsyncRetry .call/.execute on /repo, compared inside Coq with
the Runner model on the projection proj_C01; the property oracle (harness/oracles.py) runs on every trace."""
import runner_common as rc

LEVEL = "proof"
# every way of reaching the retry loop without a breaker: the caps are configuration, whoever builds the policy (constructor,
# RetryPolicy, decorator, RetryConfig + from_config)
OPTS = {"p_cap_mix": 0.35, "entries": rc.ENTRIES_NO_BREAKER}


def run(chk):
    chk.assumptions += [
        "time passes only in the operation and the sleeper; monotonic clock non-decreasing; 1/64 s grid",
        "decision callbacks (classifier, strategy, sleep handler, sleeper) do not raise ordinary exceptions; attempt_timeout_s=None",
    ]
    ok = chk.check_theorems()
    rc.run_runner_check(chk, "C01", "proj_C01", OPTS, theorems_ok=ok)
    overlap_part(chk)
    if ok:
        import source_tie
        source_tie.runner_ties(chk)


def overlap_cases():
    out = []
    for kind in ("nested", "tasks"):
        for mode in ("call", "execute"):
            for klass, cap in (("TRANSIENT", {"per_class": 1}), ("RATE_LIMIT", {"per_class": 2}), ("UNKNOWN", {"unknown": 1}),
                               ("UNKNOWN", {"unknown": 2, "per_class": 1}), ("SERVER_ERROR", {"per_class": 0})):
                for inner in (0, 1):
                    out.append({"kind": kind, "klass": klass, "cap": cap, "max_attempts": 6, "mode": mode, "inner_failures": inner})
    return out


def overlap_verdict(c, r):
    n = min(v for v in (c["cap"].get("per_class"), c["cap"].get("unknown") if c["klass"] == "UNKNOWN" else None) if v is not None)
    want = min(c["max_attempts"], n + 1)
    what = f"{c['kind']} calls on one policy, class {c['klass']}, caps {c['cap']}, max_attempts {c['max_attempts']}, {c['mode']}()"
    if r["end"][0] in ("driver_error", "raise"):
        return f"{what}: ended with {r['end']}"
    if r["outer_invocations"] != want:
        return (f"{what}: the outer call invoked its operation {r['outer_invocations']} times while other calls ran on the same policy "
                f"object; its own caps allow {want}")
    iw = min(c["inner_failures"], n) + 1
    if any(k != iw for k in r["inner_invocations"]):
        return f"{what}: an inner call invoked its operation {r['inner_invocations']} times, its own caps allow {iw}"
    return None


def overlap_part(chk):
    """calls that overlap on one policy object (a nested call made by the retried operation; a second coroutine working while the
    first is suspended in its backoff): every call counts its own failures"""
    import common
    cases = overlap_cases()
    res = common.run_driver("c01_overlap_driver", cases)
    bad = [(c, r, m) for c, r in zip(cases, res) for m in [overlap_verdict(c, r)] if m]
    chk.coverage["overlapping_calls_on_one_policy"] = {"cases": len(cases), "note": "oracle only (the model runs calls one after another)"}
    chk.coverage["evaluations"] = chk.coverage.get("evaluations", 0) + len(cases)
    if bad:
        c, r, m = bad[0]
        chk.violation({"kind": "oracle", "part": "overlap", "what": m, "overlap_case": c, "observed": r, "driver": "c01_overlap_driver",
                       "also_failing": len(bad)})


def replay(path):
    import json
    r = json.load(open(path))
    if "overlap_case" in r:
        import common
        o = common.run_driver("c01_overlap_driver", [r["overlap_case"]])[0]
        m = overlap_verdict(r["overlap_case"], o)
        print(o)
        print("oracle:", m or "holds")
        return 1 if m else 0
    return rc.replay_runner(path)
