"""C02 — see coq/theories/Props/C02.v (theorems) and DESIGN.md §4.
Tie: scripted call sequences through Retry/AsyncRetry .call/.execute on /repo under a virtual monotonic
clock (time.time() jumps wildly on every read), compared inside Coq with the Runner model on the
projection proj_C02 (times of invocations and sleeps, requested delays); the property oracle runs on
every trace."""
import runner_common as rc

LEVEL = "proof"
OPTS = {"entries": rc.ENTRIES_NO_BREAKER, "p_tight_deadline": 0.7, "p_handler": 0.1, "p_abort": 0.2}


def run(chk):
    chk.assumptions += [
        "time passes only in the operation and the sleeper; monotonic clock non-decreasing; 1/64 s grid "
        "(elapsed time is compared by the code after its own rounding to 1 microsecond, which the grid makes exact)",
        "sleepers sleep at least the requested time (C02_total_sleep)",
        "decision callbacks (classifier, strategy, sleep handler, sleeper) do not raise ordinary exceptions; attempt_timeout_s=None",
    ]
    ok = chk.check_theorems()
    rc.run_runner_check(chk, "C02", "proj_C02", OPTS, theorems_ok=ok)
    rc.slow_record_part(chk, ("C02",), OPTS)
    if ok:
        import source_tie
        source_tie.runner_ties(chk)


def replay(path):
    return rc.replay_runner(path)
