"""C03 — see coq/theories/Props/C03.v (theorems) and DESIGN.md §4.
Tie: scripted call sequences through Retry/AsyncRetry .call/.execute on /repo, compared inside Coq with
the Runner model on the projection proj_C03; the property oracle (harness/oracles.py) runs on every trace."""
import runner_common as rc

LEVEL = "proof"
# every way of reaching the retry loop without a breaker (the projection does not contain classifier calls, which the sugar
# entry points make once more for the absent breaker)
# (a share of the scripts interleaves a capped class with another one and sets both UNKNOWN caps at once: the caps are part of "permitted")
OPTS = {"p_cap_mix": 0.15, "entries": rc.ENTRIES_NO_BREAKER}


def run(chk):
    chk.assumptions += [
        "time passes only in the operation and the sleeper; monotonic clock non-decreasing; 1/64 s grid",
        "decision callbacks (classifier, strategy, sleep handler, sleeper) do not raise ordinary exceptions; attempt_timeout_s=None",
    ]
    ok = chk.check_theorems()
    rc.run_runner_check(chk, "C03", "proj_C03", OPTS, theorems_ok=ok)
    # (the deadline clauses of the C02 oracle: a sleep requested once the deadline has passed is a retry that was not permitted)
    rc.slow_record_part(chk, ("C02",), OPTS)
    if ok:
        import source_tie
        source_tie.runner_ties(chk)


def replay(path):
    return rc.replay_runner(path)
