"""C04 — see coq/theories/Props/C04.v (theorems) and DESIGN.md §4.
Tie: scripted call sequences through Retry/AsyncRetry .call on /repo with mixed exception/result
histories reaching every stop reason with both causes; the driver identifies the returned object and the
raised exception object by `is` (id registry) and checks that the innermost traceback frame of a re-raised
exception is the scripted operation.  Compared inside Coq with the Runner model on proj_C04 (the delivery:
returned value id / raised exception id / RetryExhaustedError fields)."""
import runner_common as rc

LEVEL = "proof"
OPTS = {"entries": rc.ENTRIES_NO_BREAKER, "mode": "call", "p_rc": 0.7, "p_handler": 0.45, "handler_choices": ["S", "S", "D", "D", "A"], "p_abort": 0.25, "p_budget": 0.35, "p_special": 0.06}


def run(chk):
    chk.assumptions += [
        "time passes only in the operation and the sleeper; monotonic clock non-decreasing; 1/64 s grid",
        "decision callbacks (classifier, strategy, sleep handler, sleeper) do not raise ordinary exceptions; attempt_timeout_s=None",
        "object identity = index of the attempt that produced the object; tracebacks are checked by the driver only",
    ]
    ok = chk.check_theorems()
    rc.run_runner_check(chk, "C04", "proj_C04", OPTS, theorems_ok=ok)
    if ok:
        import source_tie
        source_tie.runner_ties(chk)


def replay(path):
    return rc.replay_runner(path)
