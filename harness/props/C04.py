"""C04 — see coq/theories/Props/C04.v (theorems) and DESIGN.md §4.
Tie: scripted call sequences through Retry/AsyncRetry .call on /repo with mixed exception/result
histories reaching every stop reason with both causes; the driver identifies the returned object and the
raised exception object by `is` (id registry) and checks that the innermost traceback frame of a re-raised
exception is the scripted operation.  Compared inside Coq with the Runner model on proj_C04 (the delivery:
returned value id / raised exception id / RetryExhaustedError fields)."""
import runner_common as rc

LEVEL = "proof"
OPTS = {"entries": rc.ENTRIES_NO_BREAKER, "mode": "call", "p_rc": 0.7, "p_handler": 0.45, "handler_choices": ["S", "S", "D", "D", "A"], "p_abort": 0.25, "p_budget": 0.35, "p_special": 0.06}


def run(chk):
    chk.assumptions += [
        "time passes only in the operation and the sleeper; monotonic clock non-decreasing; 1/64 s grid",
        "decision callbacks (classifier, strategy, sleep handler, sleeper) do not raise ordinary exceptions; attempt_timeout_s=None",
        "object identity = index of the attempt that produced the object; tracebacks are checked by the driver only",
    ]
    ok = chk.check_theorems()
    # what call() must raise on a deferral or a handler's abort presupposes that the handler was consulted and obeyed: the clauses
    # of the C16 oracle are applied as well (a run that ignores a DEFER never "stops on a deferral", and would otherwise look fine)
    import oracles

    def handler_protocol(seqs, obs):
        return [(i, {"kind": "oracle", "oracle": "C16", "what": m, "script": s, "observed": o, "driver": "runner_driver"})
                for i, (s, o) in enumerate(zip(seqs, obs)) for m in [oracles.check_seq("C16", s, o)] if m]

    rc.run_runner_check(chk, "C04", "proj_C04", OPTS, theorems_ok=ok, extra_oracle=handler_protocol,
                        extra_seqs=rc.hold_hung_sequences(chk.rng, OPTS, modes=("call",)))
    values_part(chk)
    if ok:
        import source_tie
        source_tie.runner_ties(chk)


def values_verdict(c, r):
    k, ma = c["fails"], c["max_attempts"]
    inv = min(k + 1, ma)
    what = None
    if r["invocations"] != inv or len(r["classified"]) != inv:
        what = f"{r['invocations']} invocations and {len(r['classified'])} result classifications, expected {inv} of each"
    elif k < ma:
        want = ["return", "'ok'"] if c["mode"] == "call" else ["outcome", True, "'ok'", None, inv, "none"]
        if r["end"] != want:
            what = f"ended with {r['end']}, expected {want}"
    else:
        lv = "none" if c["value"] == "none" else "value"
        want = ["exhausted", "MAX_ATTEMPTS_GLOBAL", ma, lv] if c["mode"] == "call" else ["outcome", False, "None", "MAX_ATTEMPTS_GLOBAL", ma, lv]
        if r["end"] != want:
            what = f"ended with {r['end']}, expected {want}"
    if what is None:
        return None
    return (f"{'async ' if c['async'] else ''}{c['mode']}() with the first {k} attempts returning {c['value']!r} (classified TRANSIENT by the "
            f"result classifier, max_attempts={ma}): {what}")


def values_part(chk, modes=("call",)):
    """results without an identity of their own (None, 0, 0.0, "", [], False): the result classifier is asked about every returned
    value, a value it calls a failure is retried, call() returns the first value it calls a success and the exhaustion error /
    outcome carries the last failed value itself"""
    import common
    cases = [{"value": v, "fails": k, "max_attempts": 3, "async": a, "mode": m}
             for v in ("none", "zero", "zerof", "empty", "list", "false", "obj") for k in (0, 1, 2, 3, 5) for a in (False, True)
             for m in modes]
    res = common.run_driver("c04_values_driver", cases)
    bad = [(c, r, m) for c, r in zip(cases, res) for m in [values_verdict(c, r)] if m]
    chk.coverage["values_without_identity"] = {"cases": len(cases), "values": ["None", "0", "0.0", "''", "[]", "False", "object()"],
                                               "note": "oracle only: the model identifies a value by the attempt that produced it"}
    chk.coverage["evaluations"] = chk.coverage.get("evaluations", 0) + len(cases)
    if bad:
        c, r, m = bad[0]
        chk.violation({"kind": "oracle", "part": "values", "what": m, "values_case": c, "observed": r, "driver": "c04_values_driver",
                       "also_failing": len(bad)})


def replay(path):
    import json
    r = json.load(open(path))
    if "values_case" in r:
        import common
        o = common.run_driver("c04_values_driver", [r["values_case"]])[0]
        m = values_verdict(r["values_case"], o)
        print(o)
        print("oracle:", m or "holds")
        return 1 if m else 0
    return rc.replay_runner(path)
