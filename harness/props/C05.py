"""C05 — see coq/theories/Props/C05.v (theorems) and DESIGN.md §4.
Tie: scripted call sequences through Retry/AsyncRetry .call/.execute on /repo; one closure per strategy
table entry (so the consulted entry is observable), both the 1-argument (BackoffContext) and the legacy
3-argument signature, raw returns incl. negative / NaN / +-inf / above the remaining time, classifier
answers with and without retry_after_s.  Compared inside Coq with the Runner model on proj_C05 (strategy
calls with all arguments; the delay seen by handler, before_sleep, sleeper, retry events; next_sleep_s)."""
import runner_common as rc

LEVEL = "proof"
OPTS = {"entries": rc.ENTRIES_NO_BREAKER, "p_tight_deadline": 0.5, "p_fail_exc": 0.6, "p_handler": 0.35, "p_bs": 0.4, "p_metric": 0.8, "p_log": 0.6,
        "p_special": 0.04}


def run(chk):
    chk.assumptions += [
        "time passes only in the operation and the sleeper; monotonic clock non-decreasing; 1/64 s grid",
        "decision callbacks (classifier, strategy, sleep handler, sleeper) do not raise ordinary exceptions; attempt_timeout_s=None",
    ]
    ok = chk.check_theorems()
    rc.run_runner_check(chk, "C05", "proj_C05", OPTS, theorems_ok=ok)
    rc.slow_hooks_part(chk, "C05", OPTS)
    if ok:
        import source_tie
        source_tie.runner_ties(chk)


def replay(path):
    return rc.replay_runner(path)
