"""C06 — breaker opens exactly when counted failures reach a threshold in the window.

Proof side : coq/theories/Props/C06.v (refinement of circuit.py's pruned deques to the epoch
             specification for every monotone history; opening rule iff; ignored classes / old /
             pre-transition failures; closed no-ops).
Tie        : breaker histories run on /repo's CircuitBreaker, compared inside Coq with the model;
             a disagreement is attributed to C06 when it starts while the model is CLOSED.
"""
import breaker_common as bc

LEVEL = "proof"


def run(chk):
    chk.assumptions += [
        "monotonic clock non-decreasing; times on the 1/64 s grid (float arithmetic in circuit.py exact)",
        "constructor preconditions: failure_threshold >= 1, window_s > 0, recovery_timeout_s > 0, class thresholds >= 1",
    ]
    ok = chk.check_theorems()
    cov = bc.run_breaker_part(chk, "count", True, "sel_closed", ok, 1500, 12000, 2, 4, "breaker-histories")
    cov["rule"] = ("random breaker histories biased to counting while CLOSED (ages window-1/window/window+1, class "
                   "thresholds interacting with the global one, open/close cycles) + all histories up to the stated length "
                   "over a 24-symbol alphabet; non-trivial = the breaker opened at least once; distinct by (config, history)")
    chk.coverage.update(cov)
    if ok:
        import source_tie
        source_tie.report(chk, source_tie.circuit_tie(chk), "circuit",
                          f"{cov.get('evaluations')} breaker histories (random and exhaustive small scope): no property violation found")


def replay(path):
    return bc.replay_breaker(path)
