"""C07 — open breaker fails fast; recovery admits exactly one probe.

Proof side : coq/theories/Props/C07.v.
Tie        : (1) breaker histories biased to open/half-open cycles on /repo's CircuitBreaker, compared
             inside Coq; disagreements that start while the model is OPEN/HALF_OPEN belong to C07;
             (2) policy-level histories and coroutine interleavings (added with Policy.v).
"""
import breaker_common as bc

LEVEL = "proof"


def run(chk):
    chk.assumptions += [
        "monotonic clock non-decreasing; times on the 1/64 s grid",
        "constructor preconditions of CircuitBreaker",
    ]
    ok = chk.check_theorems()
    cov = bc.run_breaker_part(chk, "cycle", False, "sel_not_closed", ok, 1500, 12000, 2, 4, "breaker-histories")
    cov["rule"] = ("random breaker histories biased to open / half-open cycles with gaps recovery-1/recovery/recovery+1 "
                   "+ all histories up to the stated length over a 24-symbol alphabet; non-trivial = opened and later "
                   "admitted a probe; distinct by (config, history)")
    chk.coverage.update(cov)
    try:
        import policy_common as pc  # added with Policy.v
    except ImportError:
        pc = None
    if pc is not None and hasattr(pc, "run_c07_policy_part"):
        pc.run_c07_policy_part(chk, ok)
        pc.run_c07_interleave_part(chk, ok)
    if ok:
        import source_tie
        source_tie.report(chk, source_tie.circuit_tie(chk), "circuit",
                          "breaker histories, policy-level scripts and interleavings: no property violation found")
        source_tie.report(chk, source_tie.policy_tie(chk), "policy",
                          "breaker histories, policy-level scripts and interleavings: no property violation found")


def replay(path):
    import json
    r = json.load(open(path))
    if r.get("driver") == "breaker_driver":
        return bc.replay_breaker(path)
    import policy_common as pc
    if "scenario" in r:
        return pc.replay_interleaving(path)
    return pc.replay(path)
