"""C08 — see coq/theories/Props/C08.v (theorems) and DESIGN.md §5.
Tie: as C09, with operation outcomes biased towards the terminations the property lists (every exception
kind from the operation, before_sleep and the sleeper, thrown into hand-driven coroutines at their
suspension points; nested RetryExhaustedError and CircuitOpenError; aborts), gaps around
recovery_timeout.  Oracle: after a call has ended the real breaker must not have a probe in flight, and
an admitted call must have reported exactly once."""
import policy_common as pc

LEVEL = "proof"
OPTS = {"p_special": 0.45, "specials": ["A", "C", "C", "C", "C", "N", "N"], "p_sleep_cancel": 0.12, "p_bs_cancel": 0.1,
        "p_bs": 0.5, "p_nested_coe": 0.15, "p_no_retry": 0.3}


def run(chk):
    chk.assumptions += [
        "calls on one breaker are sequential here (concurrent calls: C07/C17); clock advances only in operation and sleeper",
        "raising attempt hooks / classifiers / strategies are outside the runner model (Props/C08.v header)",
    ]
    pc.run_policy_check(chk, "C08", "proj_P09", OPTS)


def replay(path):
    return pc.replay_policy(path)
