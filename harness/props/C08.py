"""C08 — see coq/theories/Props/C08.v (theorems) and DESIGN.md §5.
Tie: as C09, with operation outcomes biased towards the terminations the property lists (every exception
kind from the operation, before_sleep and the sleeper, thrown into hand-driven coroutines at their
suspension points; nested RetryExhaustedError and CircuitOpenError; aborts), gaps around
recovery_timeout.  Oracle: after a call has ended the real breaker must not have a probe in flight, and
an admitted call must have reported exactly once."""
import json

import common
import policy_common as pc

LEVEL = "proof"
OPTS = {"p_special": 0.45, "specials": ["A", "C", "C", "C", "C", "N", "N"], "p_sleep_cancel": 0.12, "p_bs_cancel": 0.1,
        "p_bs": 0.5, "p_nested_coe": 0.15, "p_no_retry": 0.3}


FAULT_SITES = ("attempt_start", "attempt_end", "classifier", "result_classifier", "strategy", "before_sleep", "on_metric", "on_log",
               "abort_if", "handler", "sleeper")
FAULT_OPS = ([["V"]], [["R", "TRANSIENT"], ["V"]], [["V", "TRANSIENT"], ["V"]], [["R", "TRANSIENT"], ["R", "TRANSIENT"]],
             [["R", "PERMANENT"]], [["V", "SERVER_ERROR"], ["V", "SERVER_ERROR"]])


def fault_scenarios(tier):
    """every callback site x which invocation raises x what it raises x entry point x outcome script x breaker state at admission"""
    out = []
    for a in (False, True):
        for mode in ("call", "execute"):
            for retry in (True, False):
                for pre in ("closed", "half_open"):
                    for ops in FAULT_OPS:
                        for where in FAULT_SITES:
                            for nth in (1, 2, 3) if tier == "thorough" else (1, 2):
                                for exc in ("value", "keyboard", "genexit", "sysexit") + (("cancelled",) if a else ()):
                                    out.append({"async": a, "mode": mode, "retry": retry, "max_attempts": 2, "ops": ops, "pre": pre,
                                                "fault": {"where": where, "nth": nth, "exc": exc}})
                        # no fault at all, with the degenerate retry configurations (max_attempts = 0: the operation is never
                        # invoked and the outcome carries no class; 1: no retry is ever granted)
                        for ma in (0, 1, 2):
                            out.append({"async": a, "mode": mode, "retry": retry, "max_attempts": ma, "ops": ops, "pre": pre, "fault": None})
                    # exceptions whose status / code attributes have unusual types (the no-retry paths hand them to default_classifier
                    # inside an exception handler, before anything is recorded)
                    for shape in list(range(11)) + ["status_property_raises", "code_property_raises", "status_bool_raises"]:
                        out.append({"async": a, "mode": mode, "retry": retry, "max_attempts": 2, "ops": [["X", shape], ["V"]], "pre": pre,
                                    "fault": None})
    return out


def fault_oracle(sc, r, exactly_once=False):
    """C08 on one faulted call: an admitted call has told the breaker that it is over, no probe slot is left taken, and after the
    recovery timeout the next call is admitted"""
    if r["end"][0] == "driver_error":
        return "driver error: " + r["end"][1][-300:]
    log = r["log"]
    if not log:
        # ended before asking for admission (abort_if of a policy without retry is polled first): nothing to settle
        return None if r["next_admitted"] else "the call never asked for admission, yet the next call is rejected"
    if log[0][0] != "allow":
        return f"the call did not ask for admission first: {log[:2]}"
    settles = [e for e in log[1:] if e[0] in ("success", "failure", "cancel")]
    fl = sc.get("fault")
    what = f"{'async ' if sc['async'] else ''}{sc['mode']}() {'with' if sc['retry'] else 'without'} retry (max_attempts={sc['max_attempts']}), " + \
           (f"{fl['exc']} raised by invocation {fl['nth']} of {fl['where']}" if fl else "no fault injected") + \
           f", breaker {sc['pre']} at admission: ended with {r['end'][:2]}"
    if log[0][1] and not settles:
        return what + "; the admitted call never told the breaker that it is over"
    if exactly_once and len(settles) > 1:
        return what + f"; one admitted call reported to the breaker {len(settles)} times: {[e[0] for e in settles]}"
    if not log[0][1] and settles:
        return what + f"; rejected, yet reported {settles[0]}"
    if r["state"] == ["HALF_OPEN", True]:
        return what + "; the breaker is left half-open with a probe in flight"
    if not r["next_admitted"]:
        return what + "; after recovery_timeout_s more, the next call is still rejected"
    return None


def fault_part(chk, exactly_once=False):
    scs = fault_scenarios(chk.tier)
    res = common.run_driver("c08_fault_driver", scs, jobs=8)
    bad = [(s, r, m) for s, r in zip(scs, res) for m in [fault_oracle(s, r, exactly_once)] if m]
    fired = sum(1 for s, r in zip(scs, res) if s.get("fault") and (r["end"][0] == "raise" or r["counts"].get(s["fault"]["where"], 0) >= s["fault"]["nth"]))
    chk.coverage["fault_injection_outside_model"] = {
        "scenarios": len(scs), "fault_reached": fired, "sites": list(FAULT_SITES),
        "note": "oracle only (no theorem covers raising callbacks other than before_sleep/sleeper): admitted => settled"
                + (" exactly once" if exactly_once else "") + ", no probe left in flight, next call admitted after the recovery timeout",
    }
    chk.coverage["evaluations"] = chk.coverage.get("evaluations", 0) + len(scs)
    if bad:
        s, r, m = bad[0]
        chk.violation({"kind": "oracle", "part": "fault-injection", "what": m, "fault_scenario": s, "observed": r,
                       "driver": "c08_fault_driver", "also_failing": len(bad)})


def run(chk):
    chk.assumptions += [
        "calls on one breaker are sequential here (concurrent calls: C07/C17); clock advances only in operation and sleeper",
        "raising attempt hooks / classifiers / strategies / observability hooks are outside the retry-loop model (Props/C08.v header); "
        "they are injected on the implementation and judged by the property oracle only (coverage.fault_injection_outside_model)",
    ]
    ok = chk.check_theorems()
    pc.run_policy_check(chk, "C08", "proj_P09", OPTS, theorems_ok=ok)
    fault_part(chk)
    if ok:
        import source_tie
        source_tie.report(chk, source_tie.policy_tie(chk), "policy",
                          "policy-level call sequences (breaker cycles, every delivery kind of the inner run): no property violation found")


def replay(path):
    r = json.load(open(path))
    if "fault_scenario" in r:
        o = common.run_driver("c08_fault_driver", [r["fault_scenario"]])[0]
        m = fault_oracle(r["fault_scenario"], o, exactly_once=r.get("property") == "C09")
        print("observed:", json.dumps(o)[:800])
        print("oracle:", m or "holds")
        return 1 if m else 0
    return pc.replay_policy(path)
