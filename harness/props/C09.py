"""C09 — see coq/theories/Props/C09.v (theorems) and DESIGN.md §5.
Tie: sequences of calls on Policy/AsyncPolicy objects (call/execute, with and without a retry component)
sharing one spy CircuitBreaker on /repo; compared inside Coq with the Policy model (Policy.v = policy
wrappers + Runner.v retry loop + Breaker.v) on proj_P09 (every allow / record_success /
record_failure(class) / record_cancel the breaker receives, with its result, and the kind of delivery)."""
import policy_common as pc

LEVEL = "proof"
OPTS = {}


def run(chk):
    chk.assumptions += [
        "calls on one breaker are sequential here (concurrent calls: C07/C17); clock advances only in operation and sleeper",
        "classifiers are functions of the exception (classify_for_breaker calls the retry's classifier again)",
        "a nested policy's RetryExhaustedError carries last_class=TRANSIENT in the scripts",
    ]
    ok = chk.check_theorems()
    pc.run_policy_check(chk, "C09", "proj_P09", OPTS, theorems_ok=ok)
    # "exactly once" also when a callback fails or is interrupted at any invocation (the fault sweep of C08, outside the model):
    # e.g. a KeyboardInterrupt surfacing in the hook that receives the circuit_closed event of a call that has just reported success
    import importlib
    importlib.import_module("props.C08").fault_part(chk, exactly_once=True)
    if ok:
        import source_tie
        source_tie.report(chk, source_tie.policy_tie(chk), "policy",
                          "policy-level call sequences (breaker cycles, every delivery kind of the inner run): no property violation found")


def replay(path):
    import json
    if "fault_scenario" in json.load(open(path)):
        import importlib
        return importlib.import_module("props.C08").replay(path)
    return pc.replay_policy(path)
