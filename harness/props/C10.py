"""C10 — shared retry budget: at most max_retries retries per rolling window.

Proof side  : coq/theories/Props/C10.v (refinement of the deque to the grant history, window bound,
              refuse-only-when-full, remaining, boundary).
Tie         : Budget histories (and, in part 2, failing policy calls sharing one Budget) are run on
              /repo's Budget; the observed answers are compared inside Coq with the model's
              (Budget.bcase_ok); the Python oracle restates the property over the observed answers.
"""
import itertools
import json
import os

import common
from common import G

LEVEL = "proof"
WIN_CHOICES = [1, 2, 3, 5, 8, 64, 640]


def gen_case(rng, big=False):
    win = rng.choice(WIN_CHOICES)
    mx = rng.choice([0, 1, 1, 2, 2, 3, 4, 6])
    n = rng.randint(1, 40 if big else 14)
    hist = []
    for _ in range(n):
        r = rng.random()
        if r < 0.35:
            dt = 0
        elif r < 0.75:
            dt = rng.choice([win - 1, win, win + 1, 1, max(0, win // 2)])
        else:
            dt = rng.randint(0, 2 * win + 1)
        dt = max(0, dt)
        r = rng.random()
        if r < 0.6:
            op, cost = "C", 1
        elif r < 0.7:
            op, cost = "C0", 1
        elif r < 0.8:
            op, cost = "C", rng.choice([2, 3, mx if mx >= 1 else 1, mx + 1])
        elif r < 0.83:
            op, cost = "C", rng.choice([0, -1])
        else:
            op, cost = "R", 0
        hist.append([dt, op, cost])
    return {"max": mx, "win": win, "t0": rng.choice([0, 1, 7, 1000, 2**40]), "hist": hist}


def exhaustive_cases(maxlen):
    """all histories of length <= maxlen over {dt in 0,1,win-1,win,win+1} x {C1, C2, R}, win = 3"""
    win = 3
    alphabet = [(dt, op, cost) for dt in (0, 1, win - 1, win, win + 1) for (op, cost) in (("C", 1), ("C", 2), ("R", 0))]
    alphabet = sorted(set(alphabet))
    for mx in (0, 1, 2, 3):
        for n in range(1, maxlen + 1):
            for h in itertools.product(alphabet, repeat=n):
                yield {"max": mx, "win": win, "t0": 5, "hist": [list(x) for x in h]}


def harvested_cases(rng):
    """histories aimed at the integer literals that occur in budget.py (none beyond 0 and 1 on the pinned tree): a literal
    introduced by a change is tried as cost, max_retries, window and time step"""
    import pyir_translate
    try:
        ks = pyir_translate.harvest_constants(os.path.join(common.REPO, "src", "redress", "budget.py"))
    except (OSError, SyntaxError):
        return []
    out = []
    for k in ks:
        if not (1 < abs(k) <= 20000):
            continue
        for c in sorted({k - 1, k, k + 1}):
            for mx in sorted({1, max(0, k - 1), max(0, k), k + 1, 2 * abs(k)}):
                for win in sorted({3, max(1, k), max(1, k + 1)}):
                    hist = [[0, "C", c], [0, "R", 0], [rng.choice([0, 1, max(0, k)]), "C", 1], [win - 1, "C", c], [1, "R", 0], [0, "C", c]]
                    out.append({"max": mx, "win": win, "t0": rng.choice([0, 7, abs(k)]), "hist": hist})
    return out


def to_gallina(case, obs):
    def op(x):
        dt, o, cost = x
        return G.pair(G.z(dt), G.con("BConsume", G.z(cost)) if o in ("C", "C0") else "BRemaining")

    def res(r):
        if r == "G":
            return "RGrant"
        if r == "R":
            return "RRefuse"
        if r == "E":
            return "RErr"
        if isinstance(r, int):
            return G.con("RRem", G.z(r))
        return G.con("RRem", G.z(-999999))  # anything unexpected can never match the model

    return G.rec(
        bc_cfg=G.rec(bmax=G.z(case["max"]), bwin=G.z(case["win"])),
        bc_t0=G.z(case["t0"]),
        bc_hist=G.lst(case["hist"], op),
        bc_obs=G.lst(obs, res),
    )


def oracle(case, obs):
    """The property over the implementation's answers (grant history rebuilt from them)."""
    mx, win = case["max"], case["win"]
    if len(obs) != len(case["hist"]):
        return f"{len(obs)} answers for {len(case['hist'])} operations: {obs[:3]}"
    now = case["t0"]
    grants = []
    for (dt, op, cost), r in zip(case["hist"], obs):
        now += dt
        live = sum(1 for t in grants if now - t < win)
        if op in ("C", "C0"):
            if cost < 1:
                if r != "E":
                    return f"consume(cost={cost}) answered {r!r}, expected ValueError"
                continue
            if r == "G":
                if live + cost > mx:
                    return f"over-grant at t={now}: {live} live grants + cost {cost} > max_retries {mx}"
                grants += [now] * cost
            elif r == "R":
                if live + cost <= mx:
                    return f"refused at t={now} although only {live} grants are live (+{cost} <= {mx})"
            else:
                return f"consume answered {r!r}"
        else:
            if r != max(0, mx - live):
                return f"remaining() at t={now} = {r!r}, expected {max(0, mx - live)} ({live} live)"
    # window bound over the whole grant history
    for a in sorted(set(grants)):
        n = sum(1 for t in grants if a <= t < a + win)
        if n > mx:
            return f"{n} grants in [{a},{a + win}) > max_retries {mx}"
    return None


def nontrivial(case, obs):
    return "R" in obs and any(o == "G" for o in obs[obs.index("R"):])


def shrink(case, fails):
    """greedy: drop single operations while the case still fails (fails: case -> bool)."""
    cur = case
    changed = True
    while changed and len(cur["hist"]) > 1:
        changed = False
        cands = []
        for i in range(len(cur["hist"])):
            h = [list(x) for x in cur["hist"]]
            if i + 1 < len(h):
                h[i + 1][0] += h[i][0]
            del h[i]
            cands.append(dict(cur, hist=h))
        res = fails(cands)
        for c, bad in zip(cands, res):
            if bad:
                cur, changed = c, True
                break
    return cur


def load_corpus():
    p = os.path.join(common.VERIF, "corpus", "C10.json")
    return json.load(open(p)) if os.path.exists(p) else []


def run(chk):
    chk.assumptions += [
        "monotonic clock is non-decreasing (histories are generated with dt >= 0)",
        "window_s > 0 and max_retries >= 0 (the constructor's own preconditions)",
        "times on the 1/64 s grid, so every float subtraction/comparison in Budget is exact",
    ]
    theorems_ok = chk.check_theorems()
    tie = ftie = None
    if theorems_ok:
        import source_tie
        from concurrent.futures import ThreadPoolExecutor
        with ThreadPoolExecutor(max_workers=2) as ex:
            # budget.py = Budget.v; and the one place the retry loop consults the budget (_handle_failure = Runner.handle_failure)
            f1, f2 = ex.submit(source_tie.budget_tie, chk), ex.submit(source_tie.failure_tie, chk)
            tie, ftie = f1.result(), f2.result()
        chk.coverage["source_translation"] = {k: v for k, v in tie.items() if k != "ir"}
        if tie["ok"]:
            chk.coverage["obligations"] += len(tie["theorems"])
            chk.coverage["discharged"] += len(tie["theorems"])
            chk.coverage["theorems"] = list(chk.coverage.get("theorems", [])) + [f"BudgetIR.{t}" for t in tie["theorems"]]
        else:
            chk.coverage["obligations"] += len(source_tie.THEOREMS)

    cases = load_corpus()
    n_rand = 1500 if chk.tier == "quick" else 12000
    cases += [gen_case(chk.rng, big=(i % 5 == 0)) for i in range(n_rand)]
    hv = harvested_cases(chk.rng)
    cases += hv
    exhaustive = None
    if chk.tier == "thorough":
        ex = list(exhaustive_cases(4))
        exhaustive = len(ex)
        cases += ex
    else:
        cases += list(exhaustive_cases(2))
    obs = common.run_driver("budget_driver", cases, jobs=8)

    # ---- correspondence inside Coq ----
    failing, errors = [], []
    if theorems_ok:
        lits = [to_gallina(c, o) for c, o in zip(cases, obs)]
        failing, errors = common.coq_failing(chk.workdir, "budget", "Base Budget", "bcase", "bcase_ok", lits, shard=1500)
    # ---- oracle on every observed history ----
    oracle_fail = [(i, m) for i, (c, o) in enumerate(zip(cases, obs)) for m in [oracle(c, o)] if m]

    distinct = {common.digest([c["max"], c["win"], c["hist"]]) for c, o in zip(cases, obs) if nontrivial(c, o)}
    chk.coverage.update(
        evaluations=len(cases),
        distinct_nontrivial=len(distinct),
        traces_validated_against_impl=len(cases) if not errors else 0,
        rule="Budget histories (dt, consume(cost)|remaining) with ages window-1/window/window+1, cost in "
        "{default,1,2,3,max,max+1,0,-1}; non-trivial = at least one refusal followed later by a grant "
        "(capacity returned); distinct by (max, window, history)",
        samples=[{"case": cases[i], "observed": obs[i]} for i in (0, len(cases) // 2, len(cases) - 1)],
        exhaustive_small_scope=exhaustive,
        harvested_constant_cases=len(hv),
        distribution={
            "refusals": sum(o.count("R") for o in obs),
            "grants": sum(o.count("G") for o in obs),
            "value_errors": sum(o.count("E") for o in obs),
            "remaining_calls": sum(1 for o in obs for r in o if isinstance(r, int)),
            "max_len": max(len(c["hist"]) for c in cases),
        },
    )
    if errors:
        chk.violation({"kind": "correspondence-error", "what": "cases file did not evaluate", "errors": errors}, no_input=True)
    policy_level(chk, theorems_ok)

    def fails_batch(cands):
        ob = common.run_driver("budget_driver", cands)
        return [oracle(c, o) is not None for c, o in zip(cands, ob)]

    if oracle_fail:
        i, msg = oracle_fail[0]
        small = shrink(cases[i], fails_batch)
        so = common.run_driver("budget_driver", [small])[0]
        chk.violation(
            {"kind": "oracle", "what": oracle(small, so) or msg, "case": small, "observed": so,
             "driver": "budget_driver", "also_failing": len(oracle_fail),
             "model_disagrees_on_original": i in failing}
        )
    elif failing:
        i = failing[0]
        chk.violation(
            {"kind": "correspondence", "what": "Budget.bcase_ok: implementation answers differ from the Coq model "
             "(theorems C10_* are about the model, so they no longer describe this code); the property oracle "
             "found no violated clause", "case": cases[i], "observed": obs[i], "driver": "budget_driver",
             "disagreements": len(failing)},
            no_input=True,
        )

    if ftie is not None:
        source_tie.report(chk, ftie, "failure", "Budget histories, policy-level scripts (falsy Budget subclasses included) and thread "
                          "schedules: no property violation found")
    if tie is not None and not tie["ok"] and not chk.violations:
        # the translated source no longer proves equal to the model and no failing history was found above
        chk.violation({"kind": "source-translation", "what": tie["detail"], "stage": tie["stage"],
                       "theorem": tie.get("theorem", "pyir_translate (fail-closed translator)"), "ir": tie.get("ir"),
                       "searched": f"{len(cases)} Budget histories, the policy-level scripts and thread schedules: no property "
                       "violation found"}, no_input=True)


def policy_level(chk, theorems_ok):
    """(a) call sequences on policies sharing one Budget against the Runner model (projection: budget calls, retry and
    budget_exhausted events); (b) two threads, each one failing execute() on its own Retry sharing a Budget with one token,
    pre-empted before every source line of policy/state.py: retries granted <= tokens in every schedule."""
    import runner_common as rc
    keep = {"defer": True}
    saved = {k: chk.coverage.get(k) for k in ("evaluations", "distinct_nontrivial", "traces_validated_against_impl", "rule", "samples")}
    rc.run_runner_check(chk, "C10", "proj_C10", {"p_budget": 1.0, "p_single": 0.2, "p_fail_exc": 0.7, "p_tight_deadline": 0.1,
                                                  # the budget reaches the loop whoever builds the policy
                                                  "entries": ["retry", "retry", "retry.ctx", "retrypolicy", "decorator", "retrycfg",
                                                              "retrypolicycfg", "retrypolicyattr"]},
                        theorems_ok=theorems_ok, n_quick=250, n_thorough=4000, oracle_pid="C10", keep_result=keep)
    # run_runner_check overwrote the top-level counters: fold them into a sub-dictionary
    pl = {k: chk.coverage.pop(k) for k in ("distribution", "projection", "abort_sentinel_scripts") if k in chk.coverage}
    for k in ("evaluations", "distinct_nontrivial", "traces_validated_against_impl"):
        pl[k] = chk.coverage.get(k, 0)
        chk.coverage[k] = (saved[k] or 0) + (pl[k] or 0)
    pl["rule"] = chk.coverage.get("rule")
    chk.coverage["rule"] = saved["rule"]
    chk.coverage["samples"] = (saved["samples"] or []) + (chk.coverage.get("samples") or [])[:1]
    chk.coverage["policy_level"] = pl
    if keep.get("failing") and not chk.violations:
        i = keep["failing"][0]
        chk.violation({"kind": "correspondence", "what": "Corr.rcase_ok proj_C10: budget interactions of the retry loop differ from the "
                       "Coq model (e.g. the budget is consulted other than by one consume() per permitted retry); the oracle found no "
                       "over-grant on sequential scripts", "script": keep["seqs"][i], "observed": keep["obs"][i],
                       "disagreements": len(keep["failing"])}, no_input=True)
    scs = [{"name": "two failing calls on policies sharing a budget with one token", "kind": "policy_budget",
            "cfg": {"max": 1, "win": 1000, "policies": 2, "max_attempts": 2}, "clock": 3, "threads": [[["execute", 0]], [["execute", 1]]],
            "bound": 2 if chk.tier == "quick" else 3, "max_schedules": 800 if chk.tier == "quick" else 20000},
           {"name": "three failing calls, two tokens", "kind": "policy_budget",
            "cfg": {"max": 2, "win": 1000, "policies": 3, "max_attempts": 2}, "clock": 3,
            "threads": [[["execute", 0]], [["execute", 1]], [["execute", 2]]], "bound": 1 if chk.tier == "quick" else 2,
            "max_schedules": 800 if chk.tier == "quick" else 20000},
           # the Budget itself under two callers, pre-empted before every source line of budget.py (its lock replaced by a
           # cooperative one): the check for capacity and the grant are one step
           {"name": "one token left: two consume() calls", "kind": "budget", "cfg": {"max": 1, "win": 100}, "setup": [], "clock": 3,
            "threads": [[["consume"]], [["consume"]]], "bound": 3 if chk.tier == "quick" else None,
            "max_schedules": 1500 if chk.tier == "quick" else 40000},
           {"name": "two tokens: cost 2 against cost 1 and a reader", "kind": "budget", "cfg": {"max": 2, "win": 100}, "setup": [], "clock": 3,
            "threads": [[["consume", 2]], [["consume"]], [["remaining"]]], "bound": 2,
            "max_schedules": 1500 if chk.tier == "quick" else 40000}]
    res = common.run_driver("sched_driver", scs, timeout=3000, jobs=2)
    pl["thread_schedules"] = [{"name": sc["name"], "schedules": r["schedules"], "outcomes": len(r["outcomes"])} for sc, r in zip(scs, res)]
    for sc, r in zip(scs, res):
        for o in r["outcomes"]:
            granted = sum((r[3] if r[0] == "X" else (op[1] if len(op) > 1 else 1) if r[0] == "B" and r[1] else 0)
                          for thr, ops in zip(o[0], sc["threads"]) if thr for r, op in zip(thr, ops))
            if granted > sc["cfg"]["max"] or o not in r["sequential"]:
                chk.violation({"kind": "oracle", "what": f"scenario '{sc['name']}': {granted} retries granted with max_retries="
                               f"{sc['cfg']['max']} in one window (outcome {json.dumps(o)}; sequential outcomes {json.dumps(r['sequential'])})",
                               "scenario": sc, "driver": "sched_driver"})
                return
        if r["deadlocks"] or r["errors"]:
            chk.violation({"kind": "oracle", "what": f"scenario '{sc['name']}': deadlock or error {r['errors'][:1]}", "scenario": sc,
                           "driver": "sched_driver"})
            return


def replay(path):
    r = json.load(open(path))
    if "scenario" in r:
        res = common.run_driver("sched_driver", [r["scenario"]], timeout=3000)[0]
        bad = [o for o in res["outcomes"] if o not in res["sequential"]]
        print("schedules:", res["schedules"], "non-sequential outcomes:", bad[:2])
        return 1 if bad else 0
    if "script" in r:
        import runner_common as rc
        return rc.replay_runner(path)
    case = r["case"]
    o = common.run_driver(r.get("driver", "budget_driver"), [case])[0]
    msg = oracle(case, o)
    print("observed:", o)
    print("oracle:", msg or "holds")
    return 1 if msg else 0
