"""C11 — see coq/theories/Props/C11.v (theorems) and DESIGN.md §4.
Tie: scripted call sequences through Retry/AsyncRetry .execute on /repo reaching every stop reason with
both causes, aborts before/after failures, deferrals, cancellations and nested RetryExhaustedError;
compared inside Coq with the Runner model on proj_C11 (every RetryOutcome field except the timeline, or the
exception that propagates)."""
import runner_common as rc

LEVEL = "proof"
OPTS = {"entries": rc.ENTRIES_NO_BREAKER_EXECUTE, "mode": "execute", "p_rc": 0.7, "p_handler": 0.3, "p_abort": 0.5, "p_abort_true": 0.6, "p_budget": 0.35,
        "p_special": 0.12}


def run(chk):
    chk.assumptions += [
        "time passes only in the operation and the sleeper; monotonic clock non-decreasing; 1/64 s grid",
        "decision callbacks (classifier, strategy, sleep handler, sleeper) do not raise ordinary exceptions; attempt_timeout_s=None",
    ]
    ok = chk.check_theorems()
    # an outcome that reports a deferral / an abort presupposes that the sleep handler was consulted and obeyed (C16's clauses)
    import oracles

    def handler_protocol(seqs, obs):
        return [(i, {"kind": "oracle", "oracle": "C16", "what": m, "script": s, "observed": o, "driver": "runner_driver"})
                for i, (s, o) in enumerate(zip(seqs, obs)) for m in [oracles.check_seq("C16", s, o)] if m]

    rc.run_runner_check(chk, "C11", "proj_C11", OPTS, theorems_ok=ok, extra_oracle=handler_protocol,
                        extra_seqs=rc.hold_hung_sequences(chk.rng, OPTS, modes=("execute",)))
    # the outcome builders used when a Policy has no retry component, and circuit-open outcomes: Policy model
    import policy_common as pc
    pc.run_policy_check(chk, "C11", "proj_P12", {"mode": "execute", "p_no_retry": 0.6, "p_nested_coe": 0.3, "p_special": 0.3,
                                                  "specials": ["A", "C", "N", "N"]}, oracle_pid="C11P", theorems_ok=ok,
                        cov_key="policy_outcomes", n_quick=200, n_thorough=3000)
    # values without an identity of their own (None, 0, "", ...): oracle on the implementation (props/C04.py)
    import importlib
    importlib.import_module("props.C04").values_part(chk, modes=("execute",))
    if ok:
        import source_tie
        source_tie.runner_ties(chk)


def replay(path):
    import json
    if "values_case" in json.load(open(path)):
        import importlib
        return importlib.import_module("props.C04").replay(path)
    return rc.replay_runner(path)
