"""C12 — see coq/theories/Props/C12.v (theorems) and DESIGN.md §5.
Tie, in four parts:
 A. call sequences through Retry / retry.context (sync and async, call and execute) on /repo against the Runner
    model, full trace (proj_C12 = everything);
 B. call sequences through Policy / policy.context with a shared breaker, and through RetryPolicy /
    RetryPolicy.context / @retry / Policy without breaker, against the Policy model, full trace (proj_P12);
 C. the same script through all 20 entry points on the implementation, compared pairwise (operation
    invocations, polls, strategy calls with arguments, budget calls, hook calls with arguments, sleeps; the
    delivery seen as call() would deliver it);
 D. the two known findings replayed on the real code."""
import copy

import common
import policy_common as pc
import runner_common as rc

LEVEL = "proof"
ENTRIES_A = ["retry", "retry", "retry.ctx", "retrycfg"]
OPTS_A = {"entries": ENTRIES_A, "p_budget": 0.3}
OPTS_B = {"entries": ["policy", "policy", "policy.ctx"], "p_no_retry": 0.15}
# RetryPolicy and the decorator are sugar over Policy without a breaker: same model, breaker = None
OPTS_B2 = {"entries": ["retrypolicy", "retrypolicy", "retrypolicy.ctx", "decorator", "policy", "retrypolicycfg", "retrypolicyattr"], "p_no_retry": 0.0, "p_breaker": 0.0,
           "p_budget": 0.3, "max_attempts": [1, 2, 2, 3, 4, 5]}

ALL_ENTRIES = [(e, m, a) for a in (False, True) for (e, m) in
         [("retry", "call"), ("retry", "execute"), ("policy", "call"), ("policy", "execute"), ("retrypolicy", "call"),
          ("retrypolicy", "execute"), ("retry.ctx", "call"), ("policy.ctx", "call"), ("retrypolicy.ctx", "call"),
          ("decorator", "call"), ("retrycfg", "call"), ("retrycfg", "execute"), ("retrypolicycfg", "call"), ("retrypolicycfg", "execute"),
          ("retrypolicyattr", "call"), ("retrypolicyattr", "execute")]]
NE = len(ALL_ENTRIES)


def call_view(d):
    if d[0] != "outcome":
        return d
    o = d[1]
    if o["ok"]:
        return ["return", o["value"]]
    if o["stop"] == "ABORTED":
        return ["abort"]
    if o["cause"] == "exception" and o["next"] is None and o["exc"] is not None:
        return ["raise_op", o["exc"]]
    if o["cause"] is None:
        return ["runtime_error"]
    return ["exhausted", o["stop"], o["attempts"], o["class"], o["exc"], o["res"], o["next"]]


def norm(o):
    return [[e for e in o["trace"] if e[0] not in ("K", "RK")], call_view(o["delivery"]), o.get("end")]


def single_call_base(seq, j):
    """a one-call script every entry point can run: decorator-compatible, no breaker, no budget"""
    s = {"t0": seq["t0"], "budget": seq.get("budget"), "breaker": None, "policies": [copy.deepcopy(seq["policies"][seq["calls"][j]["policy"]])],
         "calls": [copy.deepcopy(seq["calls"][j])]}
    c = s["calls"][0]
    c["policy"] = 0
    s["policies"][0].pop("no_retry", None)
    c["cfg"].update(handler_c=False, bs_c=False, sleeper_c=False, has_opname=True, capture_tl=False)
    for op in c["env"]["ops"]:
        if op[0] == "O":
            op[0] = "R"
    if s["policies"][0]["max_attempts"] < 1:
        s["policies"][0]["max_attempts"] = c["cfg"]["max_attempts"] = 2
    return s


def pairwise(chk, suspects):
    n = 40 if chk.tier == "quick" else 600
    base, variants = [], []
    for seq in suspects[:30]:
        for j in range(len(seq["calls"])):
            base.append(single_call_base(seq, j))
    for _ in range(n):
        s = rc.gen_sequence(chk.rng, {"entries": ["decorator"], "p_single": 1.0, "p_budget": 0.5, "mode": "call"})
        base.append(single_call_base(s, 0))
    for i in range(10 if chk.tier == "quick" else 60):
        # success after retried failures with a context-style (possibly stateful) strategy: the strategy is told about both
        s = single_call_base(rc.gen_sequence(chk.rng, {"entries": ["decorator"], "p_single": 1.0, "p_budget": 0.0, "mode": "call",
                                                       "p_abort": 0.0, "p_handler": 0.0, "p_hook_fault": 0.0}), 0)
        p, c = s["policies"][0], s["calls"][0]
        k = chk.rng.choice([1, 2, 3])
        kl = chk.rng.choice(["TRANSIENT", "SERVER_ERROR", "RATE_LIMIT"])
        for d in (p, c["cfg"]):
            d.update(strat_default=False, strat_tab={} if i % 2 else {kl: False}, max_attempts=5, deadline=2**33, per_class={},
                     max_unknown=None, handler_p=False)
        ops = [["V" if (p["has_rc"] and chk.rng.random() < 0.4) else "R", 0, kl, None] for _ in range(k)] + [["V", 0, None, None]]
        c["env"].update(ops=ops, strat=[0] * (k + 1), over=[0] * (k + 1), handler=[], abort=[], sleep_cancel=[], bs_cancel=[])
        c["cfg"].update(has_abort=False, handler_c=False)
        base.append(s)
    # per-call callbacks next to per-policy ones (the call-level one must win at every entry point that takes them: all but the
    # decorator): sleep handler, before_sleep, sleeper at both levels
    for i in range(12 if chk.tier == "quick" else 150):
        s = single_call_base(rc.gen_sequence(chk.rng, {"entries": ["retry"], "p_single": 1.0, "p_budget": 0.3, "mode": "call", "p_handler": 1.0,
                                                       "p_bs": 0.7, "p_abort": 0.2, "handler_choices": ["S", "S", "D", "A"]}), 0)
        p, c = s["policies"][0], s["calls"][0]
        for d in (p, c["cfg"]):
            d.update(handler_p=True, bs_p=chk.rng.random() < 0.7, sleeper_p=chk.rng.random() < 0.7)
        c["cfg"].update(handler_c=True, bs_c=chk.rng.random() < 0.7, sleeper_c=chk.rng.random() < 0.7)
        n_ops = len(c["env"]["ops"])
        c["env"]["handler"] = [chk.rng.choice(["S", "S", "S", "D", "A"]) for _ in range(n_ops)]
        s["_call_level"] = True
        base.append(s)
    groups = []
    for s in base:
        ents = [x for x in ALL_ENTRIES if x[0] != "decorator"] if s.pop("_call_level", False) else ALL_ENTRIES
        groups.append((len(variants), ents))
        for (e, m, a) in ents:
            t = copy.deepcopy(s)
            c = t["calls"][0]
            c.update(entry=e, mode=m)
            c["async"] = a
            c["variant"] = {"throw": True, "suspend_op": True, "suspend_bs": True, "suspend_sleep": True, "bare": 0} if a else {"bare": 0}
            c["cfg"]["capture_tl"] = False
            t["spy_strategy"] = True      # strategy feedback (record_failure / record_success) is part of the compared trace
            variants.append(t)
    obs = rc.run_impl(variants, jobs=min(16, common.NPROC))
    diffs = 0
    for i, s in enumerate(base):
        g0, ents = groups[i]
        group = obs[g0:g0 + len(ents)]
        ref = norm(group[0][0])
        for j, g in enumerate(group):
            if g[0]["delivery"][0] == "driver_error":
                raise common.DriverError(str(g[0]["delivery"][1])[-1500:])
            if norm(g[0]) != ref:
                diffs += 1
                if diffs == 1:
                    a, b = ref, norm(g[0])
                    k = next((k for k in range(min(len(a[0]), len(b[0]))) if a[0][k] != b[0][k]), min(len(a[0]), len(b[0])))
                    chk.violation({"kind": "oracle", "oracle": "C12-pairwise",
                                   "what": f"entry points {ents[0]} and {ents[j]} behave differently on the same script: at trace "
                                           f"position {k}: {a[0][k:k + 2]} vs {b[0][k:k + 2]}; delivery {a[1][:3]} vs {b[1][:3]}",
                                   "script": variants[g0], "other_script": variants[g0 + j],
                                   "observed": group[0], "observed_other": g, "driver": "runner_driver"})
                break
    chk.coverage["pairwise"] = {"base_scripts": len(base), "from_disagreeing_scripts": len(base) - n - (22 if chk.tier == "quick" else 210), "entry_points": NE,
                                "with_call_level_callbacks": 12 if chk.tier == "quick" else 150,
                                "runs": len(variants), "groups_with_a_difference": diffs}
    chk.coverage["evaluations"] = chk.coverage.get("evaluations", 0) + len(variants)
    return diffs


def run(chk):
    chk.assumptions += [
        "time passes only in the operation and the sleeper; monotonic clock non-decreasing; 1/64 s grid",
        "decision callbacks do not raise (the complement is a known finding); the final exception is not a nested CircuitOpenError (known finding)",
    ]
    ok = chk.check_theorems()
    ka, kb, kb2 = {"defer": True}, {"defer": True}, {"defer": True}
    rc.run_runner_check(chk, "C12", "proj_C12", OPTS_A, theorems_ok=ok, n_quick=350, keep_result=ka)
    pc.run_policy_check(chk, "C12", "proj_P12", OPTS_B, oracle_pid="C09", theorems_ok=ok, cov_key="policy_entries", n_quick=200,
                        keep_result=kb)
    pc.run_policy_check(chk, "C12", "proj_P12", OPTS_B2, oracle_pid="none", theorems_ok=ok, cov_key="sugar_entries", n_quick=200,
                        keep_result=kb2)
    suspects = [k["seqs"][i] for k in (ka, kb, kb2) for i in k.get("failing", [])]
    diffs = pairwise(chk, suspects)
    # disagreements with the model for which the entry points nevertheless agree among themselves
    if not chk.violations:
        for k, what, drv in ((ka, "Corr.rcase_ok proj_C12", "runner"), (kb, "PolicyCorr.pcase_ok proj_P12", "policy"),
                             (kb2, "PolicyCorr.pcase_ok proj_P12 (sugar entries)", "policy")):
            if k.get("bad"):
                i, msg = k["bad"][0]
                chk.violation({"kind": "oracle", "what": msg, "script": k["seqs"][i], "observed": k["obs"][i], "oracle": "C09"})
                break
            if k.get("failing"):
                i = k["failing"][0]
                chk.violation({"kind": "correspondence", "what": f"{what}: an entry point's observable behaviour differs from the one "
                               "model all entry points must follow; the pairwise comparison of the entry points found no difference "
                               "among them", "script": k["seqs"][i], "observed": k["obs"][i], "disagreements": len(k["failing"])},
                              no_input=True)
                break
    res = common.run_driver("c12_findings_driver", [0])[0]
    chk.coverage["known_findings_replayed"] = res
    if res.get("nested_coe"):
        chk.violation({"kind": "finding", "what": "operation raises CircuitOpenError: call() settles the call as cancelled, execute() records a failure",
                       "replay": "harness/drivers/c12_findings_driver.py nested_coe()"}, signature="C12-nested-coe")
    if res.get("result_path_callback_error"):
        chk.violation({"kind": "finding", "what": "a strategy/sleeper raising while a RESULT failure is handled propagates out of call() "
                       "but is handled by execute() as an exception-caused attempt failure",
                       "replay": "harness/drivers/c12_findings_driver.py result_path_callback_error()"},
                      signature="C12-result-path-callback-error")
    if ok:
        import source_tie
        source_tie.report(chk, source_tie.sugar_tie(chk), "sugar",
                          "scripted calls through every entry point (pairwise and against the models): no difference found")


def replay(path):
    import json
    r = json.load(open(path))
    if r.get("oracle") == "C12-pairwise":
        a = rc.run_impl([r["script"]], jobs=1)[0]
        b = rc.run_impl([r["other_script"]], jobs=1)[0]
        same = norm(a[0]) == norm(b[0])
        print("same behaviour:", same)
        return 0 if same else 1
    if "breaker" in r.get("script", {}) and r["script"].get("breaker") is not None:
        return pc.replay_policy(path)
    return rc.replay_runner(path)
