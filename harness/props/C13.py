"""C13 — see coq/theories/Props/C13.v (theorems) and DESIGN.md §4.
Tie: scripted call sequences through Retry/AsyncRetry .call/.execute on /repo; abort_if answers True at
every poll index in turn; the operation raises AbortRetryError / CancelledError / KeyboardInterrupt /
SystemExit / GeneratorExit; before_sleep and the sleeper raise cancellation-type exceptions; for async
policies the driver runs the coroutine by hand and throws the exception into it at the suspension point
(operation, awaitable before_sleep, async sleeper).  Compared inside Coq with the Runner model on
proj_C13 (polls, invocations, sleeps, classifications, budget calls, kind of delivery)."""
import runner_common as rc

LEVEL = "proof"
OPTS = {"p_abort": 0.75, "p_abort_true": 0.7, "p_special": 0.3, "specials": ["A", "C", "C", "C", "N"],
        "p_sleep_cancel": 0.15, "p_bs_cancel": 0.25, "p_bs": 0.6, "p_budget": 0.4}


def run(chk):
    chk.assumptions += [
        "time passes only in the operation and the sleeper; monotonic clock non-decreasing; 1/64 s grid",
        "decision callbacks (classifier, strategy, sleep handler) do not raise ordinary exceptions; attempt_timeout_s=None",
        "cancellation is delivered at the suspension points of the operation, before_sleep and the sleeper (the only "
        "awaits of the async runner besides user callbacks)",
    ]
    ok = chk.check_theorems()
    rc.run_runner_check(chk, "C13", "proj_C13", OPTS, theorems_ok=ok)
    # the sugar entry points (RetryPolicy and its context manager, the decorator, from_config, attribute configuration) classify the
    # final exception once more for the absent breaker, so they are compared with the Policy model (breaker = None, full trace) and
    # judged by the same oracle
    import oracles
    import policy_common as pc

    def sugar_oracle(seqs, obs):
        return [(i, m) for i, (s, o) in enumerate(zip(seqs, obs)) for m in [oracles.check_seq("C13", s, o)] if m]

    pc.run_policy_check(chk, "C13", "proj_P12", dict(OPTS, entries=["retrypolicy", "retrypolicy.ctx", "decorator", "decorator", "retrypolicycfg",
                                                                      "retrypolicyattr"], p_no_retry=0.0, p_breaker=0.0),
                        oracle_pid="none", theorems_ok=ok, cov_key="sugar_entries", n_quick=150, n_thorough=2000, extra_oracle=sugar_oracle)
    if ok:
        import source_tie
        source_tie.runner_ties(chk)


def replay(path):
    import json
    r = json.load(open(path))
    if r.get("oracle") == "none":       # a script of the sugar part: same driver, the C13 oracle
        import oracles
        so = rc.run_impl([r["script"]], jobs=1)[0]
        msg = oracles.check_seq("C13", r["script"], so)
        print(json.dumps(so)[:3000])
        print("oracle:", msg or "holds")
        return 1 if msg else 0
    return rc.replay_runner(path)
