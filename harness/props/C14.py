"""C14 — see coq/theories/Props/C14.v (theorems) and DESIGN.md §4.
Tie: scripted call sequences through Retry/AsyncRetry .call/.execute on /repo with on_metric, on_log and
capture_timeline in every combination; compared inside Coq with the Runner model on proj_C14 (every
on_metric / on_log invocation with name, attempt, sleep_s, tags, retry_after_s; the captured timeline
inside RetryOutcome; the delivered stop reason)."""
import runner_common as rc

LEVEL = "proof"
OPTS = {"entries": rc.ENTRIES_NO_BREAKER, "p_metric": 0.85, "p_log": 0.7, "p_timeline": 0.7, "p_handler": 0.3, "p_abort": 0.6, "p_abort_true": 0.35, "p_rc": 0.7,
        "p_budget": 0.35}


def run(chk):
    chk.assumptions += [
        "time passes only in the operation and the sleeper; monotonic clock non-decreasing; 1/64 s grid",
        "decision callbacks (classifier, strategy, sleep handler, sleeper) do not raise ordinary exceptions; attempt_timeout_s=None",
        "Policy's breaker events and the timeline's elapsed_s stamps are tied by correspondence/oracle only (not by a theorem)",
    ]
    ok = chk.check_theorems()
    rc.run_runner_check(chk, "C14", "proj_C14", OPTS, theorems_ok=ok)
    # breaker transitions and rejections reported by Policy: attempt 0, breaker state, class on failures
    import policy_common as pc
    pc.run_policy_check(chk, "C14", "proj_P14", {"p_metric": 0.9, "p_log": 0.7, "p_no_retry": 0.2}, oracle_pid="C14P", theorems_ok=ok,
                        cov_key="breaker_events", n_quick=200, n_thorough=3000)
    pc.run_c14_interleave_part(chk)
    rc.slow_hooks_part(chk, "C14", OPTS)
    if ok:
        import source_tie
        source_tie.runner_ties(chk)


def replay(path):
    import json
    if json.load(open(path)).get("part") == "interleaved-events":
        import policy_common as pc
        return pc.replay_interleaving(path)
    return rc.replay_runner(path)
