"""C15 — see coq/theories/Props/C15.v (theorems) and DESIGN.md §4.
Tie: every script is run twice on /repo — once with on_metric / on_log / before_sleep raising ordinary
exceptions (at a single invocation index, or always; sync and awaitable before_sleep) and once with the
same hooks silent; the two implementation traces must be identical (oracle), and the faulty run is
compared inside Coq with the Runner model on the full trace (proj_C15 = everything)."""
import copy

import runner_common as rc

LEVEL = "proof"
OPTS = {"p_hook_fault": 0.95, "p_metric": 0.9, "p_log": 0.7, "p_bs": 0.6, "p_budget": 0.35, "p_timeline": 0.5}


def silent_twin(seq):
    s = copy.deepcopy(seq)
    for c in s["calls"]:
        for k in ("metric_raises", "log_raises", "bs_raises"):
            c["env"][k] = []
    return s


def run(chk):
    chk.assumptions += [
        "time passes only in the operation and the sleeper; monotonic clock non-decreasing; 1/64 s grid",
        "decision callbacks (classifier, strategy, sleep handler, sleeper) do not raise ordinary exceptions; attempt_timeout_s=None",
        "hooks raise ordinary Exceptions (RuntimeError / KeyError / ValueError); BaseException from a hook is cancellation (C13)",
    ]
    info = {}

    def twin_oracle(seqs, obs):
        faulty = [i for i, s in enumerate(seqs)
                  if any(c["env"][k] for c in s["calls"] for k in ("metric_raises", "log_raises", "bs_raises"))]
        twins = [silent_twin(seqs[i]) for i in faulty]
        tobs = rc.run_impl(twins, jobs=8) if twins else []
        out = []
        for i, so in zip(faulty, tobs):
            a = [[o["trace"], o["delivery"], o.get("end")] for o in obs[i]]
            b = [[o["trace"], o["delivery"], o.get("end")] for o in so]
            if a != b:
                j = next(j for j in range(len(a)) if a[j] != b[j])
                k = next((k for k in range(min(len(a[j][0]), len(b[j][0]))) if a[j][0][k] != b[j][0][k]),
                         min(len(a[j][0]), len(b[j][0])))
                out.append((i, {"kind": "oracle", "oracle": "C15",
                                "what": f"call #{j}: with raising hooks the run differs from the run with silent hooks at trace "
                                        f"position {k}: {a[j][0][k:k + 2]} vs {b[j][0][k:k + 2]}; delivery {a[j][1][:2]} vs {b[j][1][:2]}",
                                "script": seqs[i], "observed": obs[i], "observed_silent": so, "driver": "runner_driver"}))
        info.update(faulty=len(faulty), diffs=len(out))
        return out

    ok = chk.check_theorems()
    rc.run_runner_check(chk, "C15", "proj_C15", OPTS, extra_oracle=twin_oracle, theorems_ok=ok,
                        extra_seqs=rc.long_run_sequences(chk.rng, OPTS, n=2 if chk.tier == "quick" else 12))
    chk.coverage["hook_fault_scripts_compared_with_silent_twin"] = info.get("faulty", 0)
    chk.coverage["silent_twin_differences"] = info.get("diffs", 0)
    # the breaker events emitted by Policy (policy_helpers._emit_breaker_event) with raising hooks: full trace against the
    # Policy model (which reports to both sinks whatever the other does) + silent twin on the implementation
    import policy_common as pc
    pinfo = {}

    def ptwin(seqs, obs):
        faulty = [i for i, s in enumerate(seqs)
                  if any(c["env"][k] for c in s["calls"] for k in ("metric_raises", "log_raises", "bs_raises"))]
        twins = [silent_twin(seqs[i]) for i in faulty]
        tobs = pc.run_impl(twins, jobs=8) if twins else []
        out = []
        for i, so in zip(faulty, tobs):
            a = [[o["trace"], o["delivery"], o.get("end"), o.get("breaker_state")] for o in obs[i]]
            b = [[o["trace"], o["delivery"], o.get("end"), o.get("breaker_state")] for o in so]
            if a != b:
                j = next(j for j in range(len(a)) if a[j] != b[j])
                out.append((i, f"call #{j}: with raising hooks the policy run differs from the run with silent hooks: "
                               f"{[e[:2] for e in a[j][0]][:12]} vs {[e[:2] for e in b[j][0]][:12]}"))
        pinfo.update(faulty=len(faulty), diffs=len(out))
        return out

    pc.run_policy_check(chk, "C15", "proj_P12", {"p_hook_fault": 0.9, "p_metric": 0.95, "p_log": 0.8, "p_no_retry": 0.2}, oracle_pid="none",
                        theorems_ok=ok, cov_key="policy_breaker_events", n_quick=200, n_thorough=3000, extra_oracle=ptwin)
    chk.coverage["policy_hook_fault_scripts_compared_with_silent_twin"] = pinfo.get("faulty", 0)
    if ok:
        import source_tie
        source_tie.runner_ties(chk, "scripted call sequences with hook faults at every invocation index and their silent twins: no property violation found")


def replay(path):
    import json
    r = json.load(open(path))
    a = rc.run_impl([r["script"]], jobs=1)[0]
    b = rc.run_impl([silent_twin(r["script"])], jobs=1)[0]
    same = [[o["trace"], o["delivery"]] for o in a] == [[o["trace"], o["delivery"]] for o in b]
    print("faulty == silent:", same)
    return 0 if same else 1
