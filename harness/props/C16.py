"""C16 — see coq/theories/Props/C16.v (theorems) and DESIGN.md §4.
Tie: scripted call sequences through Retry/AsyncRetry .call/.execute on /repo with every placement of
sleep handler / before_sleep / sleeper (policy-level, call-level, both, neither) and handler decision
sequences; compared inside Coq with the Runner model on proj_C16 (handler, before_sleep and sleeper
calls with who/attempt/delay/decision, invocations, kind of delivery incl. next_sleep_s)."""
import runner_common as rc

LEVEL = "proof"
OPTS = {"p_handler": 0.55, "p_bs": 0.5, "handler_choices": ["S", "S", "S", "D", "A"], "p_metric": 0.9,
        "p_fail_exc": 0.6, "p_special": 0.05,
        # the context-manager entry binds the per-call handler / hook / sleeper once for several calls; the sugar entry points
        # (RetryPolicy, decorator, from_config) must forward every per-call and per-policy handler / hook / sleeper
        "entries": ["retry", "retry", "retry", "retry.ctx", "retrypolicy", "retrypolicy", "retrypolicy.ctx", "decorator", "retrycfg", "retrypolicyattr", "policy.ctx"]}


def run(chk):
    chk.assumptions += [
        "time passes only in the operation and the sleeper; monotonic clock non-decreasing; 1/64 s grid",
        "decision callbacks (classifier, strategy, sleep handler, sleeper) do not raise ordinary exceptions",
    ]
    ok = chk.check_theorems()
    rc.run_runner_check(chk, "C16", "proj_C16", OPTS, theorems_ok=ok)
    rc.slow_hooks_part(chk, "C16", OPTS)
    if ok:
        import source_tie
        source_tie.runner_ties(chk)


def replay(path):
    return rc.replay_runner(path)
