"""C17 — see coq/theories/Props/C17.v (theorems) and DESIGN.md §6.
Tie 1 (regenerated from source on every run): harness/lockstruct.py parses circuit.py / budget.py and emits the lock
structure of every method into coq/gen/LockStruct.v; Coq must evaluate `disciplined methods` to true (LockDiscipline.v).
Tie 2 (behavioural): a line-level scheduler (sys.settrace + cooperative lock) explores the interleavings of small thread
programs on the REAL classes from every relevant initial state; every outcome (per-thread results + final state) must be an
outcome of some sequential merge order of the same operations on the real class, and no schedule may deadlock."""
import json
import os

import common
import lockstruct

LEVEL = "proof"

BRK = {"thr": 1, "win": 100, "rto": 5}
OPENED = [[0, ["failure", "TRANSIENT"]]]
PROBE = OPENED + [[10, ["allow"]]]


def scenarios(tier):
    b2, b3 = (2, 2) if tier == "quick" else (3, 3)
    cap = 1500 if tier == "quick" else 40000
    S = []

    def add(name, kind, cfg, setup, clock, threads, bound, thread_clocks=None):
        S.append({"name": name, "kind": kind, "cfg": cfg, "setup": setup, "clock": clock, "threads": threads, "bound": bound,
                  "max_schedules": cap})
        if thread_clocks:
            S[-1]["thread_clocks"] = thread_clocks
    add("two racing probes after the timeout", "breaker", BRK, OPENED, 10, [[["allow"]], [["allow"]]], None if tier != "quick" else 3)
    add("three racing probes after the timeout", "breaker", BRK, OPENED, 10, [[["allow"]], [["allow"]], [["allow"]]], b2)
    add("racing failures crossing the threshold", "breaker", dict(BRK, thr=2), [[0, ["failure", "TRANSIENT"]]], 1,
        [[["failure", "TRANSIENT"]], [["failure", "TRANSIENT"]]], b3)
    add("three racing failures, threshold 2", "breaker", dict(BRK, thr=2), [], 1,
        [[["failure", "TRANSIENT"]], [["failure", "TRANSIENT"]], [["failure", "TRANSIENT"]]], b2)
    add("probe succeeds while another caller asks", "breaker", BRK, PROBE, 11, [[["success"]], [["allow"]]], b3)
    add("probe fails while another caller asks", "breaker", BRK, PROBE, 11, [[["failure", "AUTH"]], [["allow"]]], b3)
    add("probe cancelled while another caller asks", "breaker", BRK, PROBE, 11, [[["cancel"]], [["allow"], ["state"]]], b2)
    add("half-open: a success racing a failure", "breaker", BRK, PROBE, 11, [[["success"]], [["failure", "TRANSIENT"]]], b3)
    add("half-open: two successes and a state read", "breaker", BRK, PROBE, 11, [[["success"]], [["success"], ["state"]]], b2)
    add("half-open: failure vs cancel vs allow", "breaker", BRK, PROBE, 11, [[["failure", "AUTH"]], [["cancel"]], [["allow"]]], b2)
    add("closed: failure+allow vs allow+success", "breaker", dict(BRK, thr=2), [], 1,
        [[["failure", "TRANSIENT"], ["allow"]], [["allow"], ["success"]]], b2)
    add("open before the timeout: allow vs failure vs state", "breaker", BRK, OPENED, 3, [[["allow"]], [["failure", "TRANSIENT"]], [["state"]]], b2)
    # threads whose clock readings differ (each thread reads the clock once per operation, before taking the lock)
    add("open: a caller just before the timeout vs a probe just after it that succeeds", "breaker", BRK, OPENED, 4,
        [[["allow"]], [["allow"], ["success"]]], b3, thread_clocks=[4, 5])
    add("open: a caller just before the timeout vs a probe just after it that fails", "breaker", BRK, OPENED, 4,
        [[["allow"], ["state"]], [["allow"], ["failure", "TRANSIENT"]]], b2, thread_clocks=[4, 5])
    add("budget: a consumer just before the oldest grant ages out vs one exactly at the edge", "budget", {"max": 1, "win": 5},
        [[0, ["consume"]]], 4, [[["consume"]], [["consume"], ["remaining"]]], b3, thread_clocks=[4, 5])
    add("budget with one token left: two consumers", "budget", {"max": 1, "win": 100}, [], 3, [[["consume"]], [["consume"]]], None if tier != "quick" else 3)
    add("budget: two consumers and a reader", "budget", {"max": 2, "win": 100}, [[0, ["consume"]]], 3,
        [[["consume"]], [["consume"]], [["remaining"]]], b2)
    add("budget: cost 2 vs cost 1 with 2 left", "budget", {"max": 2, "win": 100}, [], 3, [[["consume", 2]], [["consume"]]], b3)
    add("budget: grant ageing out exactly now", "budget", {"max": 1, "win": 5}, [[0, ["consume"]]], 5, [[["consume"]], [["consume"], ["remaining"]]], b2)
    add("budget: a reader prunes the expired grant while a consumer takes the slot twice", "budget", {"max": 1, "win": 5},
        [[0, ["consume"]]], 5, [[["remaining"]], [["consume"], ["consume"]]], b3)
    return S


def run(chk):
    chk.assumptions += [
        "pre-emption granularity = source lines of circuit.py / budget.py (bytecode-level pre-emption within a line, the GIL and lock "
        "fairness are not modelled)",
        "clock readings happen before the lock is taken; the threads of a scenario read the same clock value, or (thread_clocks) each "
        "thread its own constant value",
        "sequential behaviour of the classes is tied to the Coq models by C06 / C07 / C10",
    ]
    ok = chk.check_theorems()
    # ---- tie 1: lock structure regenerated from the source --------------------------------------------------------
    gen = os.path.join(common.COQ, "gen", f"LockStruct_{os.getpid()}.v")
    info = None
    try:
        meths, info = lockstruct.generate(os.path.join(common.REPO, "src"), gen)
        rc, out, err, _ = common.run(["coqc", "-Q", common.THEORIES, "Redress", "-w", "none", gen], 300, cwd=os.path.dirname(gen))
        disciplined = rc == 0 and "= true" in out
        detail = (out + err)[-800:]
        bad_methods = [f"{m['class']}.{m['name']}" for m in meths
                       if m["public"] and (any((not l) and (t or c) for l, t, c in m["segs"]) or sum(1 for l, _, _ in m["segs"] if l) > 1)]
    except lockstruct.TranslationError as e:
        disciplined, detail, bad_methods, meths = False, f"TranslationError: {e}", [], []
    finally:
        for ext in ("", "o", "ok", "os"):
            p = gen + ext
            if os.path.exists(p):
                os.remove(p)
        for p in (gen[:-2] + ".glob", os.path.join(os.path.dirname(gen), "." + os.path.basename(gen)[:-2] + ".aux")):
            if os.path.exists(p):
                os.remove(p)
    # ---- tie 2: schedule exploration --------------------------------------------------------------------------------
    scs = scenarios(chk.tier)
    res = common.run_driver("sched_driver", scs, timeout=3000, jobs=min(8, len(scs)))
    total = sum(r["schedules"] for r in res)
    bad = []
    for sc, r in zip(scs, res):
        extra = [o for o in r["outcomes"] if o not in r["sequential"]]
        if extra:
            bad.append((sc, r, f"scenario '{sc['name']}': outcome {json.dumps(extra[0])} is not the outcome of any sequential order "
                                f"(sequential outcomes: {json.dumps(r['sequential'])})"))
        elif r["deadlocks"]:
            bad.append((sc, r, f"scenario '{sc['name']}': {r['deadlocks']} schedule(s) deadlocked"))
        elif r["errors"]:
            bad.append((sc, r, f"scenario '{sc['name']}': a thread raised {r['errors'][0]}"))
    chk.coverage.update(
        evaluations=total, distinct_nontrivial=sum(len(r["outcomes"]) for r in res),
        traces_validated_against_impl=total,
        rule="schedules of 2-3 threads x 1-2 operations on the real CircuitBreaker / Budget, pre-empted before every source line, "
        "explored by DFS up to the stated preemption bound (None = all); non-trivial/distinct = distinct (per-thread results, final "
        "state) outcomes observed",
        samples=[{"scenario": scs[0], "schedules": res[0]["schedules"], "outcomes": res[0]["outcomes"]}],
        scenarios=[{"name": sc["name"], "bound": sc["bound"], "schedules": r["schedules"], "outcomes": len(r["outcomes"]),
                    "sequential_outcomes": len(r["sequential"]), "truncated": r["truncated"]} for sc, r in zip(scs, res)],
        lock_structure={"disciplined": disciplined, "classes": info, "methods": len(meths)},
        exhaustive=all(sc["bound"] is None and not r["truncated"] for sc, r in zip(scs, res)),
    )
    if bad:
        sc, r, msg = bad[0]
        chk.violation({"kind": "oracle", "what": msg, "scenario": sc, "result": {k: r[k] for k in ("schedules", "outcomes", "sequential", "deadlocks", "errors")},
                       "driver": "sched_driver", "lock_discipline": disciplined, "undisciplined_methods": bad_methods})
    elif not disciplined:
        chk.violation({"kind": "lock-discipline", "what": "the lock structure regenerated from circuit.py / budget.py does not satisfy "
                       "LockDiscipline.disciplined (or could not be translated): the step model of Concurrency.v no longer describes the "
                       "code; the schedule exploration found no non-linearizable outcome", "undisciplined_methods": bad_methods,
                       "detail": detail}, no_input=True)
    if ok:
        # the step model of Concurrency.v runs the *model's* operations under the lock: that those are the code's is the translation
        # tie of C10 / C06 (budget.py = Budget.v, circuit.py = Breaker.v, for every state - also a deque whose stamps are out of
        # order, which only concurrent callers with different clock readings can produce and no sequential history of C06 / C10 visits)
        import source_tie
        from concurrent.futures import ThreadPoolExecutor
        with ThreadPoolExecutor(max_workers=2) as ex:
            fb, fc = ex.submit(source_tie.budget_tie, chk), ex.submit(source_tie.circuit_tie, chk)
            bt, ct = fb.result(), fc.result()
        searched = "thread schedules of the scenarios (per-thread clock readings included): no non-linearizable outcome found"
        source_tie.report(chk, bt, "budget", searched)
        source_tie.report(chk, ct, "circuit", searched)


def replay(path):
    r = json.load(open(path))
    if "scenario" not in r:
        print(r.get("what"))
        return 1
    res = common.run_driver("sched_driver", [r["scenario"]], timeout=3000)[0]
    extra = [o for o in res["outcomes"] if o not in res["sequential"]]
    print("schedules:", res["schedules"], "non-sequential outcomes:", extra[:2], "deadlocks:", res["deadlocks"])
    return 1 if extra or res["deadlocks"] or res["errors"] else 0
