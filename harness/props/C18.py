"""C18 — see coq/theories/Props/C18.v (theorems) and DESIGN.md §6.
Tie: the built-in strategies of /repo are called with random.uniform replaced by a + (b - a) * r for scripted
draws r; on the exactness grid (dyadic parameters, where every float operation of the strategy is exact, and the
saturated regime for large attempts) the float result must EQUAL the rational the Coq model computes (compared
inside Coq).  Off the grid (arbitrary floats, subnormals, huge attempts) the envelope is sampled with a 4-ulp
tolerance by the Python oracle."""
import math
from fractions import Fraction

import common
from common import G

LEVEL = "proof"


def dy(rng, lo=-6, hi=6, bits=4):
    """a dyadic rational m * 2^e with a short mantissa"""
    m = rng.randint(1, 2**bits - 1)
    e = rng.randint(lo, hi)
    return Fraction(m) * Fraction(2) ** e


def fr(q):
    return None if q is None else ([q.numerator, q.denominator] if isinstance(q, Fraction) else q)


def draw(rng):
    return rng.choice([Fraction(0), Fraction(1, 2), Fraction(1, 4), Fraction(3, 4), Fraction(rng.randint(0, 255), 256),
                       Fraction(2**20 - 1, 2**20)])


def gen_exact(rng):
    k = rng.choice(["decor", "equal", "equal", "token", "token", "adaptive", "adaptive", "retry_after", "retry_after"])
    if k == "decor":
        base = dy(rng)
        mx = base * rng.choice([1, 2, 8, 64])
        prev = rng.choice([None, Fraction(0), dy(rng), base / 4, mx, mx * 4])
        r = draw(rng)
        if rng.random() < 0.2:
            # prev * 3.0 at the edge of the float range: finite (2**1022 * 3), or +inf, where uniform() yields inf or, for the
            # draw 0.0, NaN; the strategy must still answer max_s
            prev = rng.choice([Fraction(2) ** 1022, Fraction(3) * Fraction(2) ** 1021, Fraction(2) ** 1023, Fraction(2**53 - 1) * Fraction(2) ** 971])
            r = rng.choice([Fraction(0), Fraction(0), Fraction(1, 2), Fraction(2**20 - 1, 2**20)])
        return {"kind": k, "base": fr(base), "max": fr(mx), "prev": fr(prev), "r": fr(r)}
    if k in ("equal", "token"):
        base = dy(rng, -10, 2)
        mx = base * rng.choice([1, 2, 16, 1024, 2**20])
        if rng.random() < 0.5:
            attempt = rng.randint(1, 40 if k == "equal" else 20)          # exact regime
        else:
            attempt = rng.choice([200, 512, 1000, 1023, 1024, 1025, 1750, 1751, 1752, 2000, 5000, 20000])   # saturated regime
        # the previous delay handed to the strategy (it may come from another class's strategy or a Retry-After pause): no influence
        prev = rng.choice([None, None, Fraction(0), mx, mx * Fraction(3, 4), mx * 2, base, dy(rng)])
        return {"kind": k, "base": fr(base), "max": fr(mx), "attempt": attempt, "r": fr(draw(rng)), "prev": fr(prev)}
    if k == "adaptive" and rng.random() < 0.04:
        # a burst of more than a thousand outcomes inside one window, then silence for longer than the window
        window, now = Fraction(4), Fraction(40)
        n = rng.choice([1025, 1100, 2049])
        hist = [[fr(Fraction(10) + Fraction(i, 1024)), rng.random() < 0.3] for i in range(n)]
        minm = Fraction(rng.choice([1, 2]))
        return {"kind": k, "window": fr(window), "ts": fr(Fraction(1, 2)), "minm": fr(minm), "maxm": fr(minm + 4), "hist": hist,
                "now": fr(now), "fallback": fr(dy(rng))}      # (inside the window the rate would not be an exact float)
    if k == "adaptive":
        window = Fraction(rng.choice([1, 4, 8]))
        total = rng.choice([0, 1, 2, 4, 8])      # 0: everything recorded has left the window (or nothing was recorded)
        now = Fraction(rng.randint(8, 40))
        hist = []
        # some old observations: pruned (age >= window; boundary age == window is pruned: time <= cutoff)
        for _ in range(rng.randint(0, 3) if total else rng.choice([0, 1, 1, 2, 3])):
            hist.append([fr(now - window - rng.choice([0, 1, 2])), rng.random() < 0.5])
        fails = rng.randint(0, total)
        flags = [False] * fails + [True] * (total - fails)
        rng.shuffle(flags)
        for ok in flags:
            hist.append([fr(now - window + Fraction(rng.randint(1, 8), 8) * window * Fraction(7, 8)), ok])
        hist.sort(key=lambda x: Fraction(x[0][0], x[0][1]))
        minm = Fraction(rng.choice([1, 1, 2]))
        return {"kind": k, "window": fr(window), "ts": fr(rng.choice([Fraction(1, 2), Fraction(1, 4), Fraction(1)])),
                "minm": fr(minm), "maxm": fr(minm + rng.choice([0, 1, 4])), "hist": hist, "now": fr(now), "fallback": fr(dy(rng))}
    ra = rng.choice([None, "nan", "inf", "-inf", Fraction(0), dy(rng), -dy(rng), dy(rng, 0, 12)])
    fb = rng.choice(["nan", "inf", "-inf", Fraction(0), dy(rng), -dy(rng)])
    return {"kind": "retry_after", "ra": fr(ra), "jitter": fr(rng.choice([Fraction(0), Fraction(1, 4), dy(rng), -dy(rng)])),
            "fallback": fr(fb), "remaining": fr(rng.choice([None, Fraction(0), dy(rng), dy(rng, 0, 8)])), "r": fr(draw(rng))}


def representable(q):
    """q is a binary64 number (moderate exponents): a dyadic rational whose odd part fits 53 bits"""
    q = Fraction(q)
    if q == 0:
        return True
    d = q.denominator
    if d & (d - 1):
        return False
    m = abs(q.numerator)
    while m % 2 == 0:
        m //= 2
    return m.bit_length() <= 53


def on_exact_grid(c):
    """equal / token in the un-saturated regime: every intermediate of the strategy's arithmetic, in the order the code performs
    it, is a binary64 number, so the float result is the exact rational.  Decided from the inputs alone (never from the observed
    result).  Saturated cases (cap = max_s because base * g**n is far above it) are exact whatever the rounding of the power."""
    k = c["kind"]
    if k not in ("equal", "token") or c["attempt"] > 40:
        return True
    g = Fraction(2) if k == "equal" else Fraction(3, 2)
    base, mx, r = Fraction(*c["base"]), Fraction(*c["max"]), Fraction(*c["r"])
    p = g ** c["attempt"]
    raw = base * p
    if not (representable(p) and representable(raw)):
        return raw > 2 * mx            # rounding cannot bring it below max_s
    cap = min(mx, raw)
    half = cap / 2
    steps = [cap, half, half * r, half + half * r] if k == "equal" else [cap, half, cap - half, (cap - half) * r, half + (cap - half) * r]
    return all(representable(x) for x in steps)


def gq(x):
    return f"({x[0]} # {x[1]})" if x[0] >= 0 else f"(({x[0]}) # {x[1]})"


def gqval(x):
    if x is None:
        return "None"
    if isinstance(x, str):
        return "(Some " + {"nan": "QNaN", "inf": "QPInf", "-inf": "QNInf"}[x] + ")"
    return f"(Some (QFin {gq(x)}))"


def gqv(x):
    if isinstance(x, str):
        return {"nan": "QNaN", "inf": "QPInf", "-inf": "QNInf"}[x]
    return f"(QFin {gq(x)})"


def goq(x):
    return "None" if x is None else f"(Some {gq(x)})"


def to_gallina(c, o):
    if not (isinstance(o, list) and len(o) == 2 and isinstance(o[0], int)):
        return "SBad"
    k = c["kind"]
    if k == "decor":
        return f"(SDecor {gq(c['base'])} {gq(c['max'])} {goq(c['prev'])} {gq(c['r'])} {gq(o)})"
    if k == "equal":
        return f"(SEqual {gq(c['base'])} {gq(c['max'])} {G.z(c['attempt'])} {gq(c['r'])} {gq(o)})"
    if k == "token":
        return f"(SToken {gq(c['base'])} {gq(c['max'])} {G.z(c['attempt'])} {gq(c['r'])} {gq(o)})"
    if k == "adaptive":
        hist = G.lst(c["hist"], lambda h: G.pair(gq(h[0]), G.b(h[1])))
        return (f"(SAdaptive {gq(c['minm'])} {gq(c['maxm'])} {gq(c['ts'])} {gq(c['window'])} {hist} {gq(c['now'])} "
                f"{gq(c['fallback'])} {gq(o)})")
    return f"(SRetryAfter {gqval(c['ra'])} {gq(c['jitter'])} {gqv(c['fallback'])} {goq(c['remaining'])} {gq(c['r'])} {gq(o)})"


# ---- envelope oracle (property statement; 4-ulp tolerance off the grid) -------------------------
def F(x):
    return None if x is None else (float(x) if isinstance(x, str) else Fraction(x[0], x[1]))


def ulp_slack(v):
    v = abs(float(v))
    return 4 * math.ulp(v) if v > 0 else 4 * 5e-324


def oracle(c, o):
    if isinstance(o, list) and o and o[0] == "raised":
        return f"{c['kind']} raised {o[1]}: {o[2]}"
    if isinstance(o, str):
        return f"{c['kind']} returned {o}"
    if not (isinstance(o, list) and len(o) == 2 and isinstance(o[0], int)):
        return f"{c['kind']} returned {o}"
    v = Fraction(o[0], o[1])
    k = c["kind"]
    if k == "decor":
        mx = F(c["max"])
        if not (-Fraction(ulp_slack(0)) <= v <= mx + Fraction(ulp_slack(mx))):
            return f"decorrelated_jitter returned {float(v)} outside [0, max_s={float(mx)}]"
        return None
    if k in ("equal", "token"):
        g = Fraction(2) if k == "equal" else Fraction(3, 2)
        base, mx, n = F(c["base"]), F(c["max"]), c["attempt"]
        cap = Fraction(0) if base == 0 else mx if n > 5000 else min(mx, base * g ** n)
        lo, hi = cap / 2, cap
        # float rounding of base * g**n relative error <= a few ulp (exact on the grid)
        tol = Fraction(ulp_slack(cap)) + cap * Fraction(1, 2**48)
        if not (lo - tol <= v <= hi + tol):
            return f"{k} attempt={n}: returned {float(v)} outside [cap/2, cap] with cap={float(cap)}"
        return None
    if k == "adaptive":
        fb, mn, mxm = F(c["fallback"]), F(c["minm"]), F(c["maxm"])
        tol = Fraction(ulp_slack(fb * mxm)) * 4
        if fb > 0 and fb.numerator & (fb.numerator - 1) == 0 and fb.denominator & (fb.denominator - 1) == 0:
            tol = 0      # fallback value a power of two: value / fallback is the factor itself
        if not (fb * mn - tol <= v <= fb * mxm + tol):
            return f"adaptive returned {float(v)} outside fallback*[{float(mn)}, {float(mxm)}] (fallback {float(fb)})"
        return None
    rem = F(c["remaining"])
    if v < 0:
        return f"retry_after_or returned negative {float(v)}"
    if rem is not None and rem >= 0 and v > rem:
        return f"retry_after_or returned {float(v)} > remaining {float(rem)}"
    ra = c["ra"]
    if isinstance(ra, list) and Fraction(ra[0], ra[1]) >= 0:
        h, j = Fraction(ra[0], ra[1]), max(Fraction(0), F(c["jitter"]))
        lo = h if rem is None else min(h, rem)
        if not (lo <= v <= h + j):
            return f"retry_after_or: hint {float(h)} jitter {float(j)} remaining {rem and float(rem)} -> {float(v)}"
    return None


def gen_wild(rng):
    """arbitrary floats incl. subnormals and huge attempts: envelope only"""
    def anyf(lo=-30, hi=30):
        return Fraction(rng.random() * 2.0 ** rng.randint(lo, hi))
    k = rng.choice(["decor", "equal", "token", "retry_after", "adaptive"])
    r = Fraction(rng.random())
    if k == "adaptive":
        # multipliers that are not dyadic (1.2, 3.4, ...): the interpolation min + frac * (max - min) rounds, and for an all-failure
        # window may land an ulp above max_multiplier unless it is clamped.  The fallback answers a power of two, so the
        # returned value IS the factor (up to an exact scaling) and the bounds are checked without tolerance.
        while True:
            c = gen_exact(rng)
            if c["kind"] == "adaptive" and len(c["hist"]) < 100:
                break
        mn, mx = rng.choice([(1.2, 3.4), (1.2, 3.6), (1.4, 5.7), (1.7, 3.9), (1.9, 6.2), (1.1, 1.1), (1.0, 5.0)]) if rng.random() < 0.6 \
            else (lambda a: (a, a + rng.random() * 6))(1.0 + rng.random() * 2)
        c.update(minm=fr(Fraction(mn)), maxm=fr(Fraction(mx)), fallback=fr(Fraction(rng.choice([1, 1, 2, 1024]), rng.choice([1, 1, 4]))),
                 ts=fr(Fraction(rng.choice([0.5, 0.25, 0.1, 0.3, 0.9, rng.random(), 1e-17, 1e-300, 5e-324, 1.0]))))
        if rng.random() < 0.5:
            c["hist"] = [[t, False] for t, _ in c["hist"]]      # nothing but failures in the window
        return c
    if k == "decor":
        base = anyf()
        return {"kind": k, "base": fr(base), "max": fr(base * Fraction(1 + rng.random() * 100)),
                "prev": fr(rng.choice([None, anyf(), Fraction(5e-324)])), "r": fr(r)}
    if k in ("equal", "token"):
        base = rng.choice([anyf(-40, 10), Fraction(5e-324), Fraction(1e-300), Fraction(0)])
        mx = max(base, rng.choice([anyf(-5, 20), Fraction(1e308), base]))
        return {"kind": k, "base": fr(base), "max": fr(mx),
                "attempt": rng.choice([1, 2, 3, 10, 50, 1000, 1023, 1024, 1751, 10**6, 10**18, 10**400, rng.randint(1, 3000)]), "r": fr(r)}
    return {"kind": "retry_after", "ra": fr(rng.choice([None, "nan", "inf", anyf(), -anyf()])), "jitter": fr(rng.choice([Fraction(0), anyf(-5, 3)])),
            "fallback": fr(rng.choice(["nan", "inf", "-inf", anyf(), -anyf()])), "remaining": fr(rng.choice([None, anyf(), Fraction(0)])), "r": fr(r)}


def run(chk):
    chk.assumptions += [
        "random.uniform(a, b) = a + (b - a) * r with 0 <= r < 1 (CPython's definition); parameters valid: 0 <= base_s <= max_s, "
        "min_multiplier >= 1, max_multiplier >= min_multiplier",
        "IEEE rounding is not modelled: equality with the model is demanded on the exactness grid only; elsewhere the envelope with 4 ulp",
    ]
    ok = chk.check_theorems()
    n = 900 if chk.tier == "quick" else 20000
    corpus = [{"kind": "equal", "base": [1, 4], "max": [30, 1], "attempt": 1024, "r": [1, 2]},
              {"kind": "token", "base": [1, 4], "max": [20, 1], "attempt": 1751, "r": [1, 2]},
              {"kind": "equal", "base": [1, 2**1000], "max": [2**100, 1], "attempt": 1024, "r": [0, 1]},
              {"kind": "equal", "base": [0, 1], "max": [1, 1], "attempt": 1024, "r": [1, 2]}]
    exact = corpus + [gen_exact(chk.rng) for _ in range(n)]
    wild = [gen_wild(chk.rng) for _ in range(n)]
    # cases generated for the grid whose arithmetic is not exact after all (e.g. 3**20 * 7 * (2**20 - 1) needs 55 bits): envelope only
    off = [c for c in exact if not on_exact_grid(c)]
    exact = [c for c in exact if on_exact_grid(c)]
    wild += off
    obs = common.run_driver("strategies_driver", exact + wild, jobs=8)
    oe, ow = obs[:len(exact)], obs[len(exact):]
    bad = [(c, o, m) for c, o in zip(exact + wild, obs) for m in [oracle(c, o)] if m]
    failing, errors = [], []
    if ok:
        lits = [to_gallina(c, o) for c, o in zip(exact, oe)]
        failing, errors = common.coq_failing(chk.workdir, "strat", "Base Strategies", "scase", "scase_ok", lits, shard=400,
                                             extra_defs="From Coq Require Import List. Import ListNotations. Local Open Scope Q_scope.")
    kinds = {}
    for c in exact + wild:
        kinds[c["kind"]] = kinds.get(c["kind"], 0) + 1
    distinct = {common.digest(c) for c in exact if c["kind"] in ("equal", "token") and c["attempt"] >= 2 or c["kind"] in ("adaptive", "retry_after")}
    chk.coverage.update(
        evaluations=len(exact) + len(wild), distinct_nontrivial=len(distinct),
        traces_validated_against_impl=0 if errors else len(exact),
        rule="exact-grid cases (dyadic parameters and draws; exact regime attempt <= 40/20 and saturated regime up to attempt 20000) "
        "compared for equality inside Coq + arbitrary-float cases (subnormals, attempts up to 10**400) checked against the envelope; "
        "non-trivial = jitter strategies with attempt >= 2, adaptive histories, retry_after_or cases; distinct by input",
        samples=[{"case": exact[4], "observed": oe[4]}, {"case": wild[0], "observed": ow[0]}],
        distribution={"kinds": kinds, "exact_grid": len(exact), "envelope_only": len(wild),
                      "large_attempts": sum(1 for c in exact + wild if c.get("attempt", 0) >= 1024)},
    )
    if errors:
        chk.violation({"kind": "correspondence-error", "what": "cases file did not evaluate", "errors": errors[:3]}, no_input=True)
    if bad:
        c, o, m = min(bad, key=lambda x: len(str(x[0])))
        chk.violation({"kind": "oracle", "what": m, "case": c, "observed": o, "driver": "strategies_driver", "also_failing": len(bad)})
    elif failing:
        i = failing[0]
        chk.violation({"kind": "correspondence", "what": "Strategies.scase_ok: on the exactness grid the implementation's result differs from "
                       "the rational the Coq model computes, so the theorems of Props/C18.v no longer describe this code; the envelope "
                       "oracle found no violated clause", "case": exact[i], "observed": oe[i], "driver": "strategies_driver",
                       "disagreements": len(failing)}, no_input=True)


def replay(path):
    import json
    r = json.load(open(path))
    o = common.run_driver("strategies_driver", [r["case"]])[0]
    m = oracle(r["case"], o)
    print("observed:", o)
    print("oracle:", m or "holds")
    return 1 if m else 0
