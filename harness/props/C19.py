"""C19 — see coq/theories/Props/C19.v (theorems) and DESIGN.md §6.
Tie: default / strict / http / sqlstate / pyodbc classifiers of /repo and the optional-library classifiers whose library
is absent here are run on generated exception objects (marker / TimeoutError / arbitrary-name types; every value shape in
status, status_code, code, sqlstate and in args: None, bools, ints incl. huge and all of -50..700, floats incl. NaN,
strings with SQLSTATE-like substrings at word boundaries and in brackets, bytes, containers, plain objects) and compared
inside Coq with the model (Classify.v).  The harness supplies, per string, the code points and Python's \\w flag, and per
value the text of str()."""
import re

import common
from common import G

LEVEL = "proof"
KL = ["AUTH", "PERMISSION", "PERMANENT", "CONCURRENCY", "RATE_LIMIT", "SERVER_ERROR", "TRANSIENT", "UNKNOWN"]
KIND = {"plain": "KPlain", "timeout": "KTimeout", "permanent": "KPermanent", "ratelimit": "KRateLimit",
        "concurrency": "KConcurrency", "server": "KServer"}
NAMES = ["ScriptedError", "AuthFailure", "UnauthorizedThing", "BadCredentialsError", "ForbiddenError", "PermissionDenied",
         "ReadTimeout", "ConnectionResetThing", "AuthTimeoutForbidden", "Weird", "HTTPError", "TIMEOUT", "authority"]
W = re.compile(r"\w")


def text_of(s):
    t = s["t"]
    if t == "none":
        return "None"
    if t == "bool":
        return str(bool(s["v"]))
    if t == "int":
        return str(int(s["v"]))
    if t == "bigint":
        # 10**exp has exp+1 digits; CPython refuses str() beyond 4300 digits (the model's py_str is then the empty text)
        return "" if s["exp"] + 1 > 4300 else ("-" if s["neg"] else "") + "1" + "0" * s["exp"]
    if t == "float":
        return str(float(s["v"]))
    if t == "str":
        return s["v"]
    if t == "bytes":
        return str(s["v"].encode())
    if t == "list":
        return str(list(s["items"]) if "items" in s else list(range(s["n"])))
    if t == "tuple":
        return str(tuple(s["items"]) if "items" in s else tuple(range(s["n"])))
    if t == "dict":
        return str({i: i for i in range(s["n"])})
    return "<obj>"


def g_str(text):
    return "[" + "; ".join(f"({ord(c)}, {G.b(bool(W.match(c)))})" for c in text) + "]"


def g_val(s):
    t = s["t"]
    kind = {"none": "VNone", "str": "VStr", "obj": "VObj"}.get(t)
    if t == "bool":
        kind = f"(VBool {G.b(bool(s['v']))})"
    elif t == "int":
        n = int(s["v"])
        kind = f"(VInt {G.z(n) if abs(n) < 10**18 else ('(-0x%x)%%Z' % -n if n < 0 else '0x%x%%Z' % n)})"
    elif t == "bigint":
        n = 10 ** s["exp"]
        kind = "(VInt (%s0x%x)%%Z)" % ("-" if s["neg"] else "", n)
    elif t == "float":
        v = float(s["v"])
        kind = f"(VFloat {G.b(v != 0.0)})"
    elif t == "bytes":
        kind = f"(VBytes {G.b(len(s['v']) > 0)})"
    elif t in ("list", "tuple"):
        kind = f"(VSeq {G.b((len(s['items']) if 'items' in s else s['n']) > 0)})"
    elif t == "dict":
        kind = f"(VDict {G.b(s['n'] > 0)})"
    # str(obj) of a plain object contains an address: never used by the model for a truthy non-str... except sqlstate
    text = text_of(s) if t != "obj" else "<obj>"
    return G.rec(pv_kind=kind, pv_text=g_str(text))


NONE = {"t": "none"}


def g_exc(spec):
    n = spec["name"].lower()
    return G.rec(
        e_kind=KIND[spec["base"]],
        e_name_auth=G.b("auth" in n or "unauthoriz" in n or "credential" in n),
        e_name_perm=G.b("forbid" in n or "permission" in n),
        e_name_trans=G.b("timeout" in n or "connection" in n),
        e_status=g_val(spec["attrs"].get("status", NONE)), e_status_code=g_val(spec["attrs"].get("status_code", NONE)),
        e_code=g_val(spec["attrs"].get("code", NONE)), e_sqlstate=g_val(spec["attrs"].get("sqlstate", NONE)),
        e_args="[" + "; ".join(g_val(a) for a in spec["args"]) + "]")


def to_gallina(spec, o):
    vals = [o["default"], o["strict"], o["http"], o["sqlstate"], o["pyodbc"]] + list(o["optional"].values())
    if any(v not in KL for v in vals):
        return None
    return G.rec(cc_exc=g_exc(spec), cc_default=o["default"], cc_strict=o["strict"], cc_http=o["http"], cc_sqlstate=o["sqlstate"],
                 cc_pyodbc=o["pyodbc"], cc_optional="[" + "; ".join(o["optional"].values()) + "]")


def gen_value(rng, for_sqlstate=False):
    r = rng.random()
    if r < 0.3:
        z = rng.choice([0, 1, 400, 401, 403, 404, 408, 409, 422, 429, 499, 500, 503, 599, 600, 99, 100, -1, 40001, 28000, 2**70, -2**70,
                        10**400, rng.randint(-50, 700)])
        return {"t": "int", "v": str(z)}
    if r < 0.55 or for_sqlstate and r < 0.8:
        return {"t": "str", "v": gen_text(rng)}
    if r < 0.62:
        return {"t": "bool", "v": rng.random() < 0.5}
    if r < 0.72:
        return {"t": "float", "v": rng.choice(["nan", "0.0", "28.5", "401.0", "-0.0", "inf", "40001.0", "8.0"])}
    if r < 0.8:
        return NONE
    if r < 0.84:
        return {"t": "bigint", "exp": rng.choice([4298, 4299, 4300, 5000]), "neg": rng.random() < 0.3}
    if r < 0.9:
        # non-str values whose str() contains a SQLSTATE-looking token
        return rng.choice([{"t": "bytes", "v": gen_text(rng).encode("ascii", "replace").decode()},
                           {"t": "list", "items": [rng.choice([40001, 28000, 42000, 8001])]},
                           {"t": "tuple", "items": [rng.choice([40001, 28000, 42000])]},
                           {"t": "list", "items": [40001, 7]}])
    return rng.choice([{"t": "bytes", "v": ""}, {"t": "bytes", "v": "40001"}, {"t": "list", "n": 0}, {"t": "list", "n": 2},
                       {"t": "tuple", "n": 0}, {"t": "dict", "n": 0}, {"t": "dict", "n": 1}, {"t": "obj"}])


def gen_text(rng):
    core = rng.choice(["40001", "40P01", "HYT00", "HYT01", "08S01", "08001", "08", "28000", "28P01", "42000", "42P01", "42S02", "23505",
                       "ABCDE", "abcde", "4000", "400011", "0800A", "2800", "", "401", "٤٠٠٠١", "４０００１", "HYT0é"])
    wrap = rng.choice(["{}", "[{}]", "[{}] boom", "error {} here", "x{}", "{}x", "_{}", "{}_", "({})", "[{}", "{}]", "[[{}]]",
                       "é{}", "{}é", " {} ", "ERR:{};", "[{}][42000]", "{} 40001", "no code", "[{}]x", "SQLSTATE[{}]",
                       "ERROR [{}] deadlock victim", "wrote 42000 rows ({})", "STATE [{}] after 40001 retries"])
    return wrap.format(core)


def gen_spec(rng):
    base = rng.choice(["plain"] * 6 + ["timeout", "permanent", "ratelimit", "concurrency", "server"])
    attrs = {}
    for a in ("status", "status_code", "code", "sqlstate"):
        if rng.random() < 0.4:
            attrs[a] = gen_value(rng, for_sqlstate=(a == "sqlstate"))
    args = [gen_value(rng, True) for _ in range(rng.choice([0, 0, 1, 1, 2, 3]))]
    spec = {"name": rng.choice(NAMES), "base": base, "attrs": attrs, "args": args}
    if rng.random() < 0.12:
        # the exception type has its own attribute `args` (a dataclass field, a class constant) that shadows BaseException.args:
        # a value that cannot be iterated carries no arguments; a list is read like the tuple
        shadow = rng.choice([NONE, {"t": "int", "v": "503"}, {"t": "int", "v": "0"}, {"t": "bool", "v": True}, {"t": "float", "v": "nan"},
                             {"t": "float", "v": "429.0"}, {"t": "obj"}, {"t": "bigint", "exp": 4300, "neg": False}, {"t": "list_of_args"},
                             {"t": "list_of_args"}])
        spec["args_attr"] = shadow
        if shadow["t"] != "list_of_args":
            spec["args"] = []
    if rng.random() < 0.12:
        spec["cls_level"] = True        # the attributes are class constants of the exception type
    if rng.random() < 0.08:
        spec["str_raises"] = True       # str(exc) / repr(exc) raise
    return spec


def exhaustive_ints():
    for a in ("status", "status_code", "code"):
        for z in range(-50, 701):
            yield {"name": "Weird", "base": "plain", "attrs": {a: {"t": "int", "v": str(z)}}, "args": []}
    for z in range(90, 610):
        yield {"name": "Weird", "base": "plain", "attrs": {}, "args": [{"t": "str", "v": "x"}, {"t": "int", "v": str(z)}]}
    # `status or code`: every falsy shape of status next to a mapped (or unmapped) integer code
    falsy = [{"t": "int", "v": "0"}, {"t": "bool", "v": False}, {"t": "str", "v": ""}, {"t": "bytes", "v": ""}, {"t": "list", "n": 0},
             {"t": "tuple", "n": 0}, {"t": "dict", "n": 0}, {"t": "float", "v": "0.0"}, {"t": "float", "v": "-0.0"}, {"t": "none"}]
    for st in falsy:
        for z in (401, 403, 400, 404, 422, 409, 408, 429, 500, 503, 599, 600, 200):
            yield {"name": "Weird", "base": "plain", "attrs": {"status": st, "code": {"t": "int", "v": str(z)}}, "args": []}


def truthy_spec(v):
    if v is None:
        return False
    t = v["t"]
    if t == "none":
        return False
    if t == "bool":
        return bool(v["v"])
    if t == "int":
        return int(v["v"]) != 0
    if t == "float":
        f = float(v["v"])
        return f != 0.0        # NaN != 0.0 is True: NaN is truthy
    if t in ("str", "bytes"):
        return len(v["v"]) > 0
    if t in ("list", "tuple"):
        return (len(v["items"]) if "items" in v else v["n"]) > 0
    if t == "dict":
        return v["n"] > 0
    return True


def oracle(spec, o):
    for name in ("default", "strict", "http", "sqlstate", "pyodbc"):
        if o[name] not in KL:
            return f"{name}_classifier did not return an ErrorClass: {o[name]}"
    marker = {"timeout": "TRANSIENT", "permanent": "PERMANENT", "ratelimit": "RATE_LIMIT", "concurrency": "CONCURRENCY",
              "server": "SERVER_ERROR"}.get(spec["base"])
    if marker is not None:
        for name in ("default", "strict"):
            if o[name] != marker:
                return f"{name}_classifier: marker type {spec['base']} must win over status/code/name, got {o[name]}"
    if marker is None and not spec["attrs"] and not spec["args"]:
        # nothing but the type name is left: strict_classifier must not look at it, default_classifier follows the name table
        n = spec["name"].lower()
        want = "AUTH" if ("auth" in n or "unauthoriz" in n or "credential" in n) else \
            "PERMISSION" if ("forbid" in n or "permission" in n) else "TRANSIENT" if ("timeout" in n or "connection" in n) else "UNKNOWN"
        if o["strict"] != "UNKNOWN":
            return (f"strict_classifier answered {o['strict']} for a bare exception of type {spec['name']!r} (no marker, status or code): "
                    f"it must not use the type name (asked after default_classifier had seen the same type)")
        if o["default"] != want:
            return f"default_classifier answered {o['default']} for a bare exception of type {spec['name']!r}, the name table says {want}"
    st = spec["attrs"].get("status")
    if marker is None and st is not None and st["t"] == "int" and int(st["v"]) != 0:
        z = int(st["v"])
        want = {401: "AUTH", 403: "PERMISSION", 400: "PERMANENT", 404: "PERMANENT", 422: "PERMANENT", 409: "CONCURRENCY",
                408: "TRANSIENT", 429: "RATE_LIMIT"}.get(z, "SERVER_ERROR" if 500 <= z < 600 else None)
        if want is not None:
            for name in ("default", "strict"):
                if o[name] != want:
                    return f"{name}_classifier: status {z} must map to {want} regardless of the type name, got {o[name]}"
    # `err.status or err.code`: a falsy status (None, 0, False, "", empty container) lets a mapped integer code decide
    cd = spec["attrs"].get("code")
    if marker is None and not truthy_spec(st) and cd is not None and cd["t"] == "int":
        z = int(cd["v"])
        want = {401: "AUTH", 403: "PERMISSION", 400: "PERMANENT", 404: "PERMANENT", 422: "PERMANENT", 409: "CONCURRENCY",
                408: "TRANSIENT", 429: "RATE_LIMIT"}.get(z, "SERVER_ERROR" if 500 <= z < 600 else None)
        if want is not None:
            for name in ("default", "strict"):
                if o[name] != want:
                    return (f"{name}_classifier: status is {st and st.get('v', st['t'])!r} (falsy) and code is {z}: expected {want} "
                            f"(`status or code`), got {o[name]}")
    # pyodbc: the SQLSTATE is the bracketed five-character token of the first string argument
    if "sqlstate" not in spec["attrs"] and len(spec["args"]) == 1 and spec["args"][0]["t"] == "str":
        m = re.fullmatch(r"[^\[\]]*\[(40001|40P01|HYT00|HYT01|08S01|28000|28P01|42000|42P01)\][^\[\]]*", spec["args"][0]["v"])
        if m:
            code = m.group(1)
            want = ("CONCURRENCY" if code in ("40001", "40P01") else "TRANSIENT" if code in ("HYT00", "HYT01", "08S01") else
                    "AUTH" if code.startswith("28") else "PERMANENT")
            if o["pyodbc"] != want:
                return f"pyodbc_classifier: message {spec['args'][0]['v']!r} carries [{code}]: expected {want}, got {o['pyodbc']}"
    if st is not None and st["t"] == "int":
        # http_classifier looks at the status first (before marker types): the documented HTTP table, everything else UNKNOWN
        z = int(st["v"])
        want = {401: "AUTH", 403: "PERMISSION", 400: "PERMANENT", 404: "PERMANENT", 409: "CONCURRENCY", 408: "TRANSIENT",
                429: "RATE_LIMIT"}.get(z, "SERVER_ERROR" if 500 <= z < 600 else "UNKNOWN")
        if o["http"] != want:
            return f"http_classifier: status {z} must map to {want}, got {o['http']}"
    if not any(spec["attrs"].get(a, {}).get("t") in ("int", "bool", "bigint") for a in ("status", "status_code", "code")):
        # no integer status attribute: the first int argument in 100..599 (bools are ints) is the status ("args may include status")
        for a in spec["args"]:
            if a["t"] == "bigint":
                continue          # far outside 100..599
            if a["t"] in ("int", "bool"):
                z = int(a["v"]) if a["t"] == "int" else int(bool(a["v"]))
                if 100 <= z <= 599:
                    want = {401: "AUTH", 403: "PERMISSION", 400: "PERMANENT", 404: "PERMANENT", 409: "CONCURRENCY", 408: "TRANSIENT",
                            429: "RATE_LIMIT"}.get(z, "SERVER_ERROR" if 500 <= z < 600 else "UNKNOWN")
                    if o["http"] != want:
                        return f"http_classifier: status {z} carried in args must map to {want}, got {o['http']}"
                    break
    for n, v in o["optional"].items():
        if v != o["default"]:
            return f"{n}_classifier (library absent) returned {v}, default_classifier returned {o['default']}"
    return None


def run(chk):
    chk.assumptions += [
        "the value universe of the property: None, bool, int, float, str, bytes, list/tuple/dict, plain objects; args is a tuple, or an attribute of the type that shadows BaseException.args and holds None, a number, a plain object or a list",
        "CPython semantics of truthiness, isinstance(bool, int), int ==, str(), re \\\\b / \\\\w as transcribed in Classify.v; the "
        "harness supplies code points, the \\\\w flag per character and str() per value",
        "optional libraries absent in this sandbox: only the import-failure branch is exercised and claimed",
    ]
    ok = chk.check_theorems()
    n = 1500 if chk.tier == "quick" else 20000
    specs = [gen_spec(chk.rng) for _ in range(n)] + list(exhaustive_ints())
    obs = common.run_driver("classify_driver", specs, jobs=8)
    bad = [(s, o, m) for s, o in zip(specs, obs) for m in [oracle(s, o)] if m]
    failing, errors = [], []
    lits = [to_gallina(s, o) for s, o in zip(specs, obs)]
    if ok:
        idx = [i for i, l in enumerate(lits) if l is not None]
        f, errors = common.coq_failing(chk.workdir, "cls", "Base Classify", "ccase", "ccase_ok", [lits[i] for i in idx], shard=400)
        failing = [idx[i] for i in f]
    dist = {}
    for o in obs:
        for name in ("default", "http", "sqlstate", "pyodbc"):
            dist[name + ":" + o[name]] = dist.get(name + ":" + o[name], 0) + 1
    distinct = {common.digest(s) for s, o in zip(specs, obs) if len({o["default"], o["strict"], o["http"], o["sqlstate"], o["pyodbc"]}) > 1}
    chk.coverage.update(
        evaluations=len(specs), distinct_nontrivial=len(distinct), traces_validated_against_impl=0 if errors else len(specs),
        rule="generated exception objects (see module docstring) + every int in -50..700 in each of status/status_code/code and "
        "90..609 as an argument; non-trivial = the five classifiers do not all agree on the object; distinct by spec",
        samples=[{"spec": specs[0], "observed": obs[0]}, {"spec": specs[7], "observed": obs[7]}],
        distribution=dist, optional_libraries_absent=obs[0]["absent"] if obs else [], exhaustive_ints=len(list(exhaustive_ints())),
    )
    if errors:
        chk.violation({"kind": "correspondence-error", "what": "cases file did not evaluate", "errors": errors[:3]}, no_input=True)
    tie = None
    if ok:
        import source_tie
        tie = source_tie.classify_tie(chk)
    if bad:
        s, o, m = min(bad, key=lambda x: len(str(x[0])))
        chk.violation({"kind": "oracle", "what": m, "spec": s, "observed": o, "driver": "classify_driver", "also_failing": len(bad)})
    elif failing:
        i = failing[0]
        chk.violation({"kind": "correspondence", "what": "Classify.ccase_ok: a classifier's answer differs from the Coq model, so the "
                       "theorems of Props/C19.v no longer describe this code; the oracle (totality, optional = default) found no violated clause",
                       "spec": specs[i], "observed": obs[i], "driver": "classify_driver", "disagreements": len(failing)}, no_input=True)

    if tie is not None:
        source_tie.report(chk, tie, "classify", f"{len(specs)} generated exception objects incl. every int in -50..700: no property violation found")


def replay(path):
    import json
    r = json.load(open(path))
    o = common.run_driver("classify_driver", [r["spec"]])[0]
    m = oracle(r["spec"], o)
    print("observed:", o)
    print("oracle:", m or "holds")
    return 1 if m else 0