"""C20 — see coq/theories/Props/C20.v (theorems) and DESIGN.md §6.
Tie: /repo's _parse_retry_after, _coerce_retry_after / _lookup_header and http_retry_after_classifier are run on
generated header strings (digit strings of 1..4400 digits dense around 308/309 and 4300/4301, signs, underscores,
whitespace, Unicode digits, HTTP-dates past/future/naive/extreme, garbage), attribute values (ints of any size,
bools, floats incl. NaN/inf, strings, other types) and header containers (dict, Mapping, object with get / items,
iterable of pairs, raising containers; exact / lower-case / mixed-case keys; None values); the results are compared
inside Coq with the model (now() frozen; the stdlib date parser's answer is the model's oracle input).  Python's
int() itself is compared with the model's py_int on every string.  Policy-level: C05 + C18 compose (C20_honoured)."""
import unicodedata
from fractions import Fraction

import common
from common import G

LEVEL = "proof"
NAME = "Retry-After"


def chars(s):
    """Gallina literal for the character classes of s, run-length encoded (long digit strings stay small)"""
    cls = []
    for ch in s:
        if ch.isspace():
            cls.append("CSpace")
        elif ch.isdecimal():
            cls.append(f"(CDigit {unicodedata.decimal(ch)})")
        elif ch == "+":
            cls.append("CPlus")
        elif ch == "-":
            cls.append("CMinus")
        elif ch == "_":
            cls.append("CUnder")
        else:
            cls.append("COther")
    parts, short, i = [], [], 0
    while i < len(cls):
        j = i
        while j < len(cls) and cls[j] == cls[i]:
            j += 1
        if j - i > 8:
            if short:
                parts.append("[" + "; ".join(short) + "]")
                short = []
            parts.append(f"repeat {cls[i]} {j - i}")
        else:
            short += cls[i:j]
        i = j
    if short or not parts:
        parts.append("[" + "; ".join(short) + "]")
    return "(" + " ++ ".join(parts) + ")"


def gz_big(n):
    """Z literal; hexadecimal for big numbers (Coq converts long decimal numerals slowly)"""
    if abs(n) < 10**18:
        return G.z(n)
    return f"(-0x{-n:x})%Z" if n < 0 else f"0x{n:x}%Z"


def gq(x):
    return f"({x[0]} # {x[1]})" if x[0] >= 0 else f"(({x[0]}) # {x[1]})"


def g_date(d):
    return "None" if not (isinstance(d, list) and len(d) == 2 and isinstance(d[0], int)) else f"(Some {gq(d)})"


def g_hint(v):
    if v is None:
        return "HNone"
    if v == "inf":
        return "HInf"
    if isinstance(v, list) and len(v) == 2 and isinstance(v[0], int):
        return f"(HSome {gq(v)})"
    return None


def value_text(spec):
    t = spec["t"]
    if t == "str":
        return spec["v"]
    if t == "int":
        return str(int(spec["v"]))
    if t == "bool":
        return str(bool(spec["v"]))
    if t == "float":
        return str(float(spec["v"]))
    if t == "none":
        return "None"
    if t == "bytes":
        return str(spec["v"].encode())
    return "[1, 2]"


def g_attr(spec, attr_date):
    if spec is None:
        return "RAbsent"
    t = spec["t"]
    if t == "int":
        return f"(RInt {gz_big(int(spec['v']))})"
    if t == "bool":
        return f"(RInt {G.z(int(bool(spec['v'])))})"
    if t == "float":
        v = float(spec["v"])
        if v != v:
            return "(RFloat FNaN)"
        if v in (float("inf"), float("-inf")):
            return "(RFloat FPInf)" if v > 0 else "(RFloat FNInf)"
        n, d = v.as_integer_ratio()
        return f"(RFloat (FFin {gq([n, d])}))"
    if t == "str":
        return f"(RStr {chars(spec['v'])} {g_date(attr_date)})"
    return "RAbsent"


KIND = {"none": "HKAbsent", "dict": "HKMapping", "mapping": "HKMapping", "getter": "(HKGetter false)", "getter_items": "(HKGetter true)",
        "iterable": "HKIterable", "iterator": "HKIterable", "raising": "HKRaising", "raising_mapping": "HKRaising"}


def g_items(hs, texts):
    out = []
    for key, v in hs.get("items", []):
        text = value_text(v)
        out.append(G.rec(h_exact=G.b(key == NAME), h_lower=G.b(key == NAME.lower()), h_ci=G.b(str(key).lower() == NAME.lower()),
                         h_none=G.b(v["t"] == "none"), h_text=chars(text), h_date=g_date(texts.get(key))))
    return "[" + "; ".join(out) + "]"


def to_gallina(c, o):
    if not isinstance(o, list) or not o or o[0] in ("raised", "bad"):
        return "RABad"
    if c["kind"] == "int":
        return f"(RAInt {chars(c['s'])} {'None' if o[1] is None else '(Some ' + gz_big(int(o[1])) + ')'})"
    if c["kind"] == "parse":
        h = g_hint(o[1])
        if h is None or (isinstance(o[2], list) and o[2] and o[2][0] == "oracle_raised"):
            return "RABad"
        return f"(RAParse {g_date(o[2])} {chars(c['s'])} {h})"
    h = g_hint(o[1])
    if h is None or o[2] != "RATE_LIMIT":
        return "RABad"
    return f"(RACoerce {g_attr(c['attr'], o[4])} {KIND[c['headers']['kind']]} {g_items(c['headers'], o[3])} {h})"


# ------------------------------------------------------------------------------------------------
def gen_string(rng):
    r = rng.random()
    if r < 0.3:
        n = rng.choice([1, 2, 3, 15, 16, 17, 18, 300, 307, 308, 309, 310, 320, 700, rng.randint(1, 400), rng.randint(1, 40)])
        if n > 40:       # long digit strings are a few runs of one digit (keeps the Gallina literal small)
            cuts = sorted(rng.sample(range(1, n), min(n - 1, rng.randint(0, 3))))
            s = "".join(rng.choice("0123456789") * (b - a) for a, b in zip([0] + cuts, cuts + [n]))
        else:
            s = "".join(rng.choice("0123456789") for _ in range(n))
        if rng.random() < 0.3:
            s = "9" * n
        if rng.random() < 0.25:
            s = rng.choice(["+", "-", "-", "--", "+-"]) + s
        if rng.random() < 0.2 and n > 2:
            k = rng.randrange(1, n)
            s = s[:k] + rng.choice(["_", "__", "_"]) + s[k:]
        if rng.random() < 0.2:
            s = rng.choice(["_", ""]) + s + rng.choice(["_", ""])
        if rng.random() < 0.4:
            s = rng.choice([" ", "\t", "\n ", " ", "\x1c", ""]) + s + rng.choice([" ", "\r\n", "\x85", ""])
        return s
    if r < 0.4:
        digs = rng.choice(["٠١٢٣٤٥٦٧٨٩", "０１２３４５６７８９", "०१२३४५६७८९", "0123456789"])
        return "".join(rng.choice(digs) for _ in range(rng.randint(1, 6)))
    if r < 0.45:
        # date-like garbage: one numeric field of a date replaced by a number of any size (day, year, hour, minute, second, zone)
        big = rng.choice(["0", "99", "100000", "2147483648", "99999999999", "9" * 20, "9" * 40])
        t = rng.choice(["{} Jan 2026 00:00:30 GMT", "21 jan {} 07:28", "Thu, 01 Jan {} 00:00:00 GMT", "1 jan 2015 {}:1:1", "Thu, 01 Jan 2026 00:{}:00 GMT",
                        "Thu, 01 Jan 2026 00:00:{} GMT", "Wed, 21 Oct 2015 07:28:00 +{}", "Wed, 21 Oct 2015 07:28:00 -{}"])
        return t.format(big)
    if r < 0.65:
        return rng.choice([
            "Wed, 21 Oct 2015 07:28:00 GMT", "Thu, 01 Jan 2026 00:00:30 GMT", "Thu, 01 Jan 2026 00:02:00 +0000",
            "Fri, 31 Dec 9999 23:59:59 GMT", "Mon, 01 Jan 0001 00:00:00 GMT", "1 Jan 2026 00:10:00", "Thu, 01 Jan 2026 01:00:00 -0100",
            "Thu, 01 Jan 2026 00:00:00 GMT", "Sat, 01 Feb 2031 12:00:00 EST", "Thu, 32 Jan 2026 00:00:00 GMT", "Thu, 01 Jan 99999 00:00:00 GMT",
            "Thu, 01 Jan 2026 25:00:00 GMT", "01 Jan 26 00:01 GMT", "Thu, 01 Jan 2026 00:00:00 +9999", "Jan 1 2026",
        ])
    return rng.choice(["", " ", "abc", "1.5", "1e3", "0x10", "12 34", "+ 1", "١٢x", "12\x00", "½", "None", "nan", "inf", "-", "_", "١_٢",
                       "2026-01-01T00:00:10Z", "soon", "퟿", "1" + "0" * 50 + ".0"])


def gen_value(rng):
    r = rng.random()
    if r < 0.55:
        return {"t": "str", "v": gen_string(rng)}
    if r < 0.75:
        return {"t": "int", "v": str(rng.choice([0, 1, 5, -3, 120, 2**53, 2**53 + 1, 10**308, 10**309, 10**400, -10**400,
                                                  2**1024 - 2**970, 2**1024 - 2**970 - 1, rng.randint(0, 10**6)]))}
    if r < 0.85:
        return {"t": "float", "v": rng.choice(["nan", "inf", "-inf", "2.5", "0.0", "-1.5", "1e300", "5e-324"])}
    return rng.choice([{"t": "none"}, {"t": "bool", "v": True}, {"t": "bool", "v": False}, {"t": "bytes", "v": "12"}, {"t": "list"}])


def gen_case(rng):
    r = rng.random()
    if r < 0.3:
        return {"kind": "int", "s": gen_string(rng)}
    if r < 0.6:
        return {"kind": "parse", "s": gen_string(rng)}
    if r < 0.68:
        # both sources present: an attribute that carries no usable hint and a plain header that does
        attr = rng.choice([None, {"t": "none"}, {"t": "str", "v": rng.choice(["", " ", "soon", "abc", "-", "nan", "None"])}])
        via = rng.random() < 0.5
        return {"kind": "coerce", "attr": attr, "via_response": via, "own_empty": rng.choice([None, "dict", "list", "tuple"]) if via else None,
                "headers": {"kind": rng.choice(["dict", "mapping", "iterable", "iterator", "getter", "getter_items"]),
                            "items": [[rng.choice([NAME, NAME, "retry-after", "RETRY-AFTER", "Retry-after", "rEtRy-AfTeR"]),
                                       {"t": "str", "v": str(rng.choice([0, 1, 7, 120, rng.randint(0, 10**6)]))}]]}}
    keys = rng.sample(["Retry-After", "retry-after", "RETRY-AFTER", "Retry-after", "X-Other", "retry_after", "Retry-After "], rng.randint(0, 3))
    items = [[k, gen_value(rng) if rng.random() < 0.85 else {"t": "none"}] for k in keys]
    kind = rng.choice(["none", "dict", "dict", "mapping", "getter", "getter_items", "iterable", "iterator", "raising", "raising_mapping"])
    if kind in ("dict", "mapping", "iterable", "iterator") and not items:
        kind = "none"          # an empty container is falsy: `headers or response.headers`
    attr = None if rng.random() < 0.5 else gen_value(rng)
    via = rng.random() < 0.4
    return {"kind": "coerce", "attr": attr, "headers": {"kind": kind, "items": items}, "via_response": via,
            "own_empty": rng.choice([None, None, "dict", "list", "tuple"]) if via else None}


def oracle(c, o):
    """the property statement on the implementation's answer"""
    if isinstance(o, list) and o and o[0] == "raised":
        return f"{c['kind']} raised {o[1]}: {o[2]}"
    if c["kind"] == "int":
        return None
    v = o[1]
    if isinstance(o[2], list) and o[2] and o[2][0] == "oracle_raised":
        return f"the stdlib date parser raised {o[2][1]}, which the code does not catch"
    if v is None or v == "inf":
        return None
    if v in ("nan", "-inf") or not (isinstance(v, list) and isinstance(v[0], int)):
        return f"hint {v} is not a non-negative number of seconds"
    q = Fraction(v[0], v[1])
    if q < 0:
        return f"negative hint {float(q)}"
    if c["kind"] == "parse":
        raw = c["s"].strip()
        if raw.isascii() and raw.isdigit() and len(raw) <= 15 and q != int(raw):
            return f"decimal integer {raw} gave {float(q)}"
        if len(o) >= 5:
            # parsed again 100 s later: a date that the stdlib parser accepts is max(0, distance from the new now)
            d2 = o[4]
            if isinstance(d2, list) and len(d2) == 2 and isinstance(d2[0], int) and not (raw.isascii() and raw.lstrip("+-").isdigit()):
                want = max(Fraction(0), Fraction(d2[0], d2[1]))
                got = o[3]
                if not (isinstance(got, list) and len(got) == 2 and isinstance(got[0], int) and Fraction(got[0], got[1]) == want):
                    return (f"HTTP-date {raw!r} parsed a second time, 100 s later, gave {got} instead of {float(want)} s "
                            f"(the first parse gave {float(q)} s)")
            elif o[3] != o[1] and not isinstance(d2, list):
                return f"{raw[:40]!r} parsed a second time gave {o[3]}, the first time {o[1]}"
    return None


def header_oracle(c, o):
    """a plain decimal Retry-After header is the hint whenever the exception itself carries no usable hint (attribute absent,
    None, or a string with no digit in it that is not a date)"""
    if c["kind"] != "coerce" or not isinstance(o, list) or len(o) < 5 or o[0] in ("raised", "bad") or o[2] != "RATE_LIMIT":
        return None
    a = c["attr"]
    unusable = a is None or a["t"] == "none" or (a["t"] == "str" and not any(ch.isdecimal() for ch in a["v"]) and o[4] is None)
    items = c["headers"].get("items", [])
    if not unusable or c["headers"]["kind"] not in ("dict", "mapping", "iterable", "iterator", "getter", "getter_items") or len(items) != 1:
        return None
    key, val = items[0]
    # key casings: a container that can be walked is searched case-insensitively; one that only answers get() is asked for the
    # canonical and the lower-case spelling
    spellings = (NAME, NAME.lower()) if c["headers"]["kind"] == "getter" else None
    if (key not in spellings if spellings else key.lower() != NAME.lower()) or val["t"] != "str":
        return None
    raw = val["v"].strip()
    if not (raw.isascii() and raw.isdigit() and len(raw) <= 15):
        return None
    v = o[1]
    got = Fraction(v[0], v[1]) if isinstance(v, list) and len(v) == 2 and isinstance(v[0], int) else v
    if got != int(raw):
        return (f"exception with retry_after={a and a.get('v')!r} and header Retry-After: {raw!r}: hint {got!r}, expected {int(raw)} "
                f"(the header is the server's hint)")
    return None


def composition(chk, ok, cases, obs):
    """the hints the classifier produced are fed to retry_after_or (strategies.py) as the classification's retry_after_s:
    the delay must lie in [min(hint, remaining), hint + jitter_s] (C18's oracle clause) and equal the model's value"""
    import importlib
    c18 = importlib.import_module("props.C18")
    rng = chk.rng
    hints = []
    for c, o in zip(cases, obs):
        v = o[1] if c["kind"] != "int" and isinstance(o, list) and len(o) > 1 else None
        # kept to hints on which every float operation of retry_after_or is exact (dyadic, 2**-20 .. 2**20)
        if isinstance(v, list) and len(v) == 2 and isinstance(v[0], int) and 0 <= Fraction(v[0], v[1]) <= 2**20 and v[1] <= 2**20:
            hints.append(v)
    zero = [v for v in hints if v[0] == 0]
    pick = zero[:60] + [[0, 1]] * 10 + [rng.choice(hints) for _ in range(min(len(hints), 300 if chk.tier == "quick" else 3000))]
    comp = []
    for v in pick:
        h = Fraction(v[0], v[1])
        j = rng.choice([Fraction(0), Fraction(1, 4), c18.dy(rng), Fraction(2), -c18.dy(rng), Fraction(-1, 4)])     # negative: no jitter
        fb = rng.choice([c18.dy(rng, 2, 8), h + max(j, 0) + 8, Fraction(0), "nan"])
        rem = rng.choice([None, None, h + max(j, 0) + c18.dy(rng, 0, 8), h, h / 2, c18.dy(rng)])
        comp.append({"kind": "retry_after", "ra": c18.fr(h), "jitter": c18.fr(j), "fallback": c18.fr(fb), "remaining": c18.fr(rem),
                     "r": c18.fr(c18.draw(rng))})
    o2 = common.run_driver("strategies_driver", comp, jobs=4)
    bad = [(c, o, m) for c, o in zip(comp, o2) for m in [c18.oracle(c, o)] if m]
    failing, errors = [], []
    if ok:
        lits = [c18.to_gallina(c, o) for c, o in zip(comp, o2)]
        failing, errors = common.coq_failing(chk.workdir, "racomp", "Base Strategies", "scase", "scase_ok", lits, shard=400,
                                             extra_defs="From Coq Require Import List. Import ListNotations. Local Open Scope Q_scope.")
    chk.coverage["composition"] = {"hints_fed_to_retry_after_or": len(comp), "zero_hints": sum(1 for c in comp if c["ra"][0] == 0),
                                   "compared_in_coq": 0 if errors else len(comp)}
    if errors:
        chk.violation({"kind": "correspondence-error", "what": "composition cases file did not evaluate", "errors": errors[:3]}, no_input=True)
    if bad:
        c, o, m = min(bad, key=lambda x: len(str(x[0])))
        chk.violation({"kind": "oracle", "what": "hint not honoured by retry_after_or: " + m, "strategy_case": c, "observed": o,
                       "driver": "strategies_driver", "also_failing": len(bad)})
    elif failing:
        i = failing[0]
        chk.violation({"kind": "correspondence", "what": "Strategies.scase_ok: retry_after_or on a classifier-produced hint differs from the "
                       "Coq model (C20_honoured is about the model); the oracle found no violated clause", "strategy_case": comp[i],
                       "observed": o2[i], "driver": "strategies_driver", "disagreements": len(failing)}, no_input=True)


def policy_part(chk):
    """the hint travels classifier -> policy -> strategy -> sleeper: through Retry / RetryPolicy / Policy (sync and async) with
    http_retry_after_classifier and retry_after_or, the sleeper must receive a delay in [min(hint, remaining), hint + jitter_s]"""
    rng = chk.rng
    cases = []
    headers = ["0", "000", " 0 ", "1", "5", "120", "Wed, 21 Oct 2015 07:28:00 GMT", None]
    for i in range(160 if chk.tier == "quick" else 1500):
        h = rng.choice(headers)
        attr = rng.choice([None, None, None, 0, 0.0, 3, -2, "0", "7"]) if h is None or rng.random() < 0.2 else None
        cases.append({"header": h, "attr": attr, "fallback": rng.choice([64 * 9, 64 * 2, 32]), "jitter": rng.choice([0, 0, 32, 64, -32, -640]),
                      "deadline": rng.choice([10**6, 64 * 60, 64 * 3]), "att_timeout": rng.choice([None, None, 64 * 2, 64 * 50]),
                      "async": rng.random() < 0.5,
                      "entry": rng.choice(["retry", "retrypolicy", "policy"]), "r": [rng.choice([0, 1, 3]), 4]})
        if cases[-1]["async"]:
            cases[-1]["att_timeout"] = None      # asyncio.wait_for needs a running loop; the coroutines here are driven by hand
    res = common.run_driver("c20_policy_driver", cases, jobs=4)
    bad = None
    zero = 0
    for c, r in zip(cases, res):
        if r["end"][0] != "return":
            bad = bad or (c, r, f"the call ended with {r['end'][:3]}")
            continue
        h = r["hint"]
        if not (isinstance(h, list) and len(r["delays"]) == 1 and isinstance(r["delays"][0], int)):
            if h is None and len(r["delays"]) == 1:
                continue
            bad = bad or (c, r, f"hint {h}, sleeper calls {r['delays']}")
            continue
        hs = Fraction(h[0], h[1]) * 64          # ticks
        zero += hs == 0
        d, rem, j = r["delays"][0], c["deadline"], max(0, c["jitter"])      # a negative jitter_s means no jitter
        if not (min(hs, rem) <= d <= hs + j):
            bad = bad or (c, r, f"{'async ' if c['async'] else ''}{c['entry']}.call: the classifier's hint is {float(hs) / 64} s (Retry-After "
                                f"{c['header']!r}, retry_after {c['attr']!r}), jitter_s {j / 64} s, {rem / 64} s remain, but the sleeper got {d / 64} s")
    chk.coverage["policy_end_to_end"] = {"calls": len(cases), "zero_hints": zero, "entries": ["retry", "retrypolicy", "policy"],
                                         "note": "classifier -> policy -> retry_after_or -> sleeper on the implementation; oracle only "
                                                 "(the model-level statement is C20_honoured)"}
    chk.coverage["evaluations"] = chk.coverage.get("evaluations", 0) + len(cases)
    if bad:
        c, r, m = bad
        chk.violation({"kind": "oracle", "part": "policy", "what": m, "policy_case": c, "observed": r, "driver": "c20_policy_driver"})


def run(chk):
    chk.assumptions += [
        "email.utils.parsedate_to_datetime is the oracle for what a date text means; which exceptions it raises is not assumed (any "
        "exception of the parser that the code lets through is a violation: date-like garbage with numeric fields of any size is generated)",
        "datetime.now(UTC) is the wall clock: frozen at 2026-01-01T00:00:00Z in the driver so that date results are exact",
        "CPython 3.12 semantics of int(str) (Unicode decimal digits, underscores, 4300-digit limit) and float(int) as transcribed in RetryAfter.v",
    ]
    ok = chk.check_theorems()
    n = 1500 if chk.tier == "quick" else 25000
    corpus = [{"kind": "parse", "s": "21 jan 99999999999 07:28"}, {"kind": "parse", "s": "1 jan 2015 99999999999999999999999:1:1"},
              {"kind": "parse", "s": "Wed, 21 Oct 2015 07:28:00 +99999999999999999999"},
              {"kind": "coerce", "attr": None, "headers": {"kind": "dict", "items": [["Retry-After", {"t": "str", "v": "21 jan 99999999999 07:28"}]]},
               "via_response": False},
              {"kind": "parse", "s": "9" * 309}, {"kind": "parse", "s": "9" * 4300},
              {"kind": "coerce", "attr": {"t": "int", "v": str(10**400)}, "headers": {"kind": "none", "items": []}, "via_response": False},
              {"kind": "parse", "s": "9" * 308}, {"kind": "parse", "s": "1_" * 2200 + "1"},
              # the 4300-digit limit of int(): just below / above, with underscores not counted
              {"kind": "int", "s": "7" * 4300}, {"kind": "int", "s": "7" * 4301}, {"kind": "parse", "s": " " + "3" * 4301},
              {"kind": "int", "s": "1" * 2150 + "_" + "2" * 2150}, {"kind": "int", "s": "1" * 2151 + "_" + "2" * 2150}]
    # every kind of numeric attribute, alone and beside a usable header (the attribute wins when it is a number)
    for v in ({"t": "float", "v": "nan"}, {"t": "float", "v": "inf"}, {"t": "float", "v": "-inf"}, {"t": "float", "v": "-1.5"},
              {"t": "float", "v": "0.0"}, {"t": "float", "v": "2.5"}, {"t": "int", "v": "0"}, {"t": "int", "v": "-3"},
              {"t": "bool", "v": True}, {"t": "bool", "v": False}):
        for hk, items in (("none", []), ("dict", [[NAME, {"t": "str", "v": "7"}]])):
            corpus.append({"kind": "coerce", "attr": v, "headers": {"kind": hk, "items": items}, "via_response": False})
    cases = corpus + [gen_case(chk.rng) for _ in range(n)]
    obs = common.run_driver("retry_after_driver", cases, jobs=8)
    # known finding (DESIGN §12, thirteenth wave): a zero-padded digit string longer than CPython's int() digit limit denotes a small
    # integer ("digit strings of any length ... a decimal integer n within float range gives n") but int() refuses it and no hint
    # results.  The model has the digit limit in it (theorem hypothesis); replayed here on every run.
    kf = {"kind": "parse", "s": "0" * 5000 + "5"}
    ko = common.run_driver("retry_after_driver", [kf])[0]
    chk.coverage["known_finding_zero_padded"] = {"case": "'0'*5000 + '5'", "observed": ko[:2]}
    if ko[0] == "parse" and ko[1] is None:
        chk.violation({"kind": "oracle", "what": "_parse_retry_after('0'*5000 + '5') gives no hint; the text denotes the integer 5",
                       "case": kf, "observed": ko, "driver": "retry_after_driver"}, signature="C20-zero-padded-beyond-digit-limit")
    bad = [(c, o, m) for c, o in zip(cases, obs) for m in [oracle(c, o) or header_oracle(c, o)] if m]
    failing, errors = [], []
    if ok:
        lits = [to_gallina(c, o) for c, o in zip(cases, obs)]
        failing, errors = common.coq_failing(chk.workdir, "ra", "Base RetryAfter", "racase", "racase_ok", lits, shard=250,
                                             extra_defs="From Coq Require Import List. Import ListNotations.")
    kinds, outcomes = {}, {"hint": 0, "none": 0, "inf": 0}
    for c, o in zip(cases, obs):
        kinds[c["kind"]] = kinds.get(c["kind"], 0) + 1
        if c["kind"] != "int" and isinstance(o, list) and len(o) > 1:
            outcomes["none" if o[1] is None else "inf" if o[1] == "inf" else "hint"] += 1
    distinct = {common.digest(c) for c, o in zip(cases, obs) if c["kind"] != "int" and isinstance(o, list) and len(o) > 1 and o[1] is not None}
    chk.coverage.update(
        evaluations=len(cases), distinct_nontrivial=len(distinct), traces_validated_against_impl=0 if errors else len(cases),
        rule="header strings / attribute values / header containers as described in the module docstring; non-trivial = the "
        "implementation produced a hint; distinct by input",
        samples=[{"case": cases[5], "observed": obs[5]}, {"case": cases[-1], "observed": obs[-1]}],
        distribution={"kinds": kinds, "outcomes": outcomes,
                      "digit_strings_ge_300": sum(1 for c in cases if "s" in c and sum(ch.isdigit() for ch in c["s"]) >= 300)},
    )
    if errors:
        chk.violation({"kind": "correspondence-error", "what": "cases file did not evaluate", "errors": errors[:3]}, no_input=True)
    if bad:
        c, o, m = min(bad, key=lambda x: len(str(x[0])))
        chk.violation({"kind": "oracle", "what": m, "case": c, "observed": o, "driver": "retry_after_driver", "also_failing": len(bad)})
    elif failing:
        i = failing[0]
        chk.violation({"kind": "correspondence", "what": "RetryAfter.racase_ok: the implementation's answer differs from the Coq model "
                       "of the Retry-After handling, so the theorems of Props/C20.v no longer describe this code; the property oracle "
                       "found no violated clause", "case": cases[i], "observed": obs[i], "driver": "retry_after_driver",
                       "disagreements": len(failing)}, no_input=True)
    composition(chk, ok, cases, obs)
    policy_part(chk)


def replay(path):
    import json
    r = json.load(open(path))
    if "policy_case" in r:
        o = common.run_driver("c20_policy_driver", [r["policy_case"]])[0]
        print("observed:", o)
        hs = o["hint"]
        okk = isinstance(hs, list) and len(o["delays"]) == 1 and min(Fraction(hs[0], hs[1]) * 64, r["policy_case"]["deadline"]) <= o["delays"][0] <= Fraction(hs[0], hs[1]) * 64 + max(0, r["policy_case"]["jitter"])
        print("oracle:", "holds" if okk or hs is None else "violated")
        return 0 if okk or hs is None else 1
    if "strategy_case" in r:
        import importlib
        c18 = importlib.import_module("props.C18")
        o = common.run_driver("strategies_driver", [r["strategy_case"]])[0]
        m = c18.oracle(r["strategy_case"], o)
        print("observed:", o)
        print("oracle:", m or "holds")
        return 1 if m else 0
    o = common.run_driver("retry_after_driver", [r["case"]])[0]
    m = oracle(r["case"], o) or header_oracle(r["case"], o)
    print("observed:", str(o)[:500])
    print("oracle:", m or "holds")
    return 1 if m else 0
