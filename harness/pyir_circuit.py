"""Fail-closed translator: the methods of redress/circuit.py's CircuitBreaker (constructor included) -> PyIRH terms
(CircuitIR.v).  Every Python AST shape is mapped to one PyIRH constructor; anything else raises TranslationError.  The message
of a `raise` is not translated (SRaise), the default values of failure_threshold / window_s / recovery_timeout_s / clock are
recorded but not modelled (the checks always pass them)."""
import ast
import os

from pyir_translate import TranslationError, _Rename, q

STATES = ["CLOSED", "OPEN", "HALF_OPEN"]
INIT_PARAMS = ["failure_threshold", "window_s", "recovery_timeout_s", "trip_on", "class_thresholds", "clock"]
METHODS = ["__init__", "state", "allow", "record_success", "record_failure", "record_cancel", "_note_failure", "_prune", "_clear_failures"]
REQUIRED_IMPORTS = {"import threading", "import time", "from collections import deque", "from collections.abc import Callable, Mapping",
                    "from dataclasses import dataclass", "from enum import Enum", "from .errors import ErrorClass",
                    "from .events import EventName"}


def is_self_attr(n, name=None):
    return (isinstance(n, ast.Attribute) and isinstance(n.value, ast.Name) and n.value.id == "self"
            and (name is None or n.attr == name))


class Ctx:
    def __init__(self, events):
        self.events = events
        self.used_events = set()
        self.init_defaults = {}


def expr(n, cx):
    if isinstance(n, ast.Constant):
        if n.value is True or n.value is False:
            return f"(EBool {'true' if n.value else 'false'})"
        if n.value is None:
            return "ENone"
        if isinstance(n.value, int):
            return f"(EInt {n.value})" if n.value >= 0 else f"(EInt ({n.value}))"
        raise TranslationError(f"constant {n.value!r}")
    if isinstance(n, ast.Name):
        return f"(EVar {q(n.id)})"
    if is_self_attr(n):
        return f"(EAttr {q(n.attr)})"
    if isinstance(n, ast.Attribute):
        # CircuitState.X
        if isinstance(n.value, ast.Name) and n.value.id == "CircuitState" and n.attr in STATES:
            return f"(EConst {q(n.attr)})"
        # EventName.X.value
        v = n.value
        if (n.attr == "value" and isinstance(v, ast.Attribute) and isinstance(v.value, ast.Name) and v.value.id == "EventName"
                and v.attr in cx.events):
            cx.used_events.add(v.attr)
            return f"(EConst {q(v.attr)})"
        raise TranslationError(f"attribute {ast.unparse(n)}")
    if isinstance(n, ast.Call):
        f = n.func
        if n.keywords:
            raise TranslationError(f"keyword arguments in {ast.unparse(n)}")
        if is_self_attr(f, "_clock") and not n.args:
            return "EClock"
        if isinstance(f, ast.Name) and f.id == "len" and len(n.args) == 1:
            return f"(ELen {expr(n.args[0], cx)})"
        if isinstance(f, ast.Name) and f.id == "dict" and len(n.args) == 1:
            return f"(EDictCopy {expr(n.args[0], cx)})"
        if isinstance(f, ast.Name) and f.id == "set" and len(n.args) == 1:
            return f"(ESetOf {expr(n.args[0], cx)})"
        if (isinstance(f, ast.Attribute) and isinstance(f.value, ast.Name) and f.value.id == "threading" and f.attr == "Lock"
                and not n.args):
            return "ELock"
        if isinstance(f, ast.Name) and f.id == "_BreakerDecision" and 2 <= len(n.args) <= 3:
            args = [expr(a, cx) for a in n.args] + (["ENone"] if len(n.args) == 2 else [])
            return "(ERec [" + "; ".join(args) + "])"
        if isinstance(f, ast.Attribute) and f.attr == "get" and len(n.args) == 1 and is_self_attr(f.value):
            return f"(EDictGet {expr(f.value, cx)} {expr(n.args[0], cx)})"
        raise TranslationError(f"call {ast.unparse(n)[:80]}")
    if isinstance(n, ast.Subscript) and isinstance(n.slice, ast.Constant) and n.slice.value == 0:
        return f"(EHead {expr(n.value, cx)})"
    if isinstance(n, ast.BinOp) and isinstance(n.op, (ast.Add, ast.Sub)):
        return f"(EBin {'OAdd' if isinstance(n.op, ast.Add) else 'OSub'} {expr(n.left, cx)} {expr(n.right, cx)})"
    if isinstance(n, ast.Compare) and len(n.ops) == 1:
        a, b = expr(n.left, cx), expr(n.comparators[0], cx)
        op = type(n.ops[0])
        arith = {ast.LtE: "CLe", ast.Lt: "CLt", ast.Gt: "CGt", ast.GtE: "CGe"}.get(op)
        if arith:
            return f"(ECmp {arith} {a} {b})"
        if op is ast.Is:
            return f"(EIs {a} {b})"
        if op is ast.IsNot:
            return f"(EIsNot {a} {b})"
        if op is ast.NotIn:
            return f"(ENotIn {a} {b})"
        raise TranslationError(f"comparison {op.__name__}")
    if isinstance(n, ast.BoolOp) and isinstance(n.op, ast.And) and len(n.values) == 2:
        return f"(EAnd {expr(n.values[0], cx)} {expr(n.values[1], cx)})"
    if isinstance(n, ast.BoolOp) and isinstance(n.op, ast.Or) and len(n.values) == 2:
        return f"(EOr {expr(n.values[0], cx)} {expr(n.values[1], cx)})"
    if isinstance(n, ast.Dict) and not n.keys:
        return "EEmptyDict"
    if isinstance(n, ast.Set) and n.elts and all(isinstance(e, ast.Attribute) and isinstance(e.value, ast.Name) and e.value.id == "ErrorClass"
                                                for e in n.elts):
        return "(ESetLit [" + "; ".join(q(e.attr) for e in n.elts) + "])"
    raise TranslationError(f"expression {ast.dump(n)[:80]}")


def seq(stmts):
    stmts = [s for s in stmts if s is not None]
    if not stmts:
        return "SSkip"
    out = stmts[-1]
    for s in reversed(stmts[:-1]):
        out = f"(SSeq {s} {out})"
    return out


def is_deque_ctor(n):
    return isinstance(n, ast.Call) and isinstance(n.func, ast.Name) and n.func.id == "deque" and not n.args and not n.keywords


def is_helper_call(n):
    return isinstance(n, ast.Call) and is_self_attr(n.func) and n.func.attr.startswith("_") and n.func.attr != "_clock" and not n.keywords


def stmt(n, cx):
    if isinstance(n, ast.Expr) and isinstance(n.value, ast.Constant) and isinstance(n.value.value, str):
        return None
    if isinstance(n, ast.Assign) and len(n.targets) == 1:
        t = n.targets[0]
        if isinstance(t, ast.Name):
            if is_deque_ctor(n.value):
                return f"(SNewDeque {q(t.id)})"
            if is_helper_call(n.value):
                return f"(SCallAssign {q(t.id)} {q(n.value.func.attr)} [{'; '.join(expr(a, cx) for a in n.value.args)}])"
            return f"(SAssign {q(t.id)} {expr(n.value, cx)})"
        if is_self_attr(t):
            if is_deque_ctor(n.value):
                return f"(SAttrNewDeque {q(t.attr)})"
            return f"(SSetAttr {q(t.attr)} {expr(n.value, cx)})"
        if isinstance(t, ast.Subscript) and is_self_attr(t.value):
            return f"(SDictSet {q(t.value.attr)} {expr(t.slice, cx)} {expr(n.value, cx)})"
        raise TranslationError(f"assignment target {ast.unparse(t)}")
    if isinstance(n, ast.AnnAssign) and is_self_attr(n.target) and n.value is not None:
        if is_deque_ctor(n.value):
            return f"(SAttrNewDeque {q(n.target.attr)})"
        return f"(SSetAttr {q(n.target.attr)} {expr(n.value, cx)})"
    if isinstance(n, ast.Raise):
        return "SRaise"
    if (isinstance(n, ast.For) and not n.orelse and isinstance(n.target, ast.Tuple) and len(n.target.elts) == 2
            and all(isinstance(e, ast.Name) for e in n.target.elts) and isinstance(n.iter, ast.Call)
            and isinstance(n.iter.func, ast.Attribute) and n.iter.func.attr == "items" and not n.iter.args and not n.iter.keywords):
        kx, vx = n.target.elts[0].id, n.target.elts[1].id
        return f"(SForItems {q(kx)} {q(vx)} {expr(n.iter.func.value, cx)} {seq([stmt(x, cx) for x in n.body])})"
    if isinstance(n, ast.If):
        return f"(SIf {expr(n.test, cx)} {seq([stmt(x, cx) for x in n.body])} {seq([stmt(x, cx) for x in n.orelse])})"
    if isinstance(n, ast.While) and not n.orelse:
        return f"(SWhile {expr(n.test, cx)} {seq([stmt(x, cx) for x in n.body])})"
    if isinstance(n, ast.With) and len(n.items) == 1 and is_self_attr(n.items[0].context_expr, "_lock") and n.items[0].optional_vars is None:
        return f"(SWithLock {seq([stmt(x, cx) for x in n.body])})"
    if isinstance(n, ast.Return):
        return f"(SReturn {expr(n.value, cx) if n.value is not None else 'ENone'})"
    if isinstance(n, ast.Expr) and isinstance(n.value, ast.Call):
        c = n.value
        f = c.func
        if c.keywords:
            raise TranslationError(f"keyword arguments in {ast.unparse(c)}")
        if is_helper_call(c):
            return f"(SCall {q(f.attr)} [{'; '.join(expr(a, cx) for a in c.args)}])"
        # <local set>.update(<dict>.keys())
        if (isinstance(f, ast.Attribute) and f.attr == "update" and isinstance(f.value, ast.Name) and len(c.args) == 1
                and isinstance(c.args[0], ast.Call) and isinstance(c.args[0].func, ast.Attribute) and c.args[0].func.attr == "keys"
                and not c.args[0].args and not c.args[0].keywords):
            return f"(SSetUpdateKeys {q(f.value.id)} {expr(c.args[0].func.value, cx)})"
        if isinstance(f, ast.Attribute) and (is_self_attr(f.value) or isinstance(f.value, ast.Name)):
            tgt = expr(f.value, cx)
            if f.attr == "append" and len(c.args) == 1:
                return f"(SAppend {tgt} {expr(c.args[0], cx)})"
            if f.attr == "popleft" and not c.args:
                return f"(SPopLeft {tgt})"
            if f.attr == "clear" and not c.args:
                return f"(SClear {tgt})"
    raise TranslationError(f"statement {ast.unparse(n)[:100]}")


def canonical(f, params, private):
    mapping = {}
    if private:
        for i, pn in enumerate(params):
            mapping[pn] = f"p{i}"
    k = 0
    for n in ast.walk(f):
        if isinstance(n, ast.Name) and isinstance(n.ctx, ast.Store) and n.id not in mapping and n.id not in params:
            mapping[n.id] = f"l{k}"
            k += 1
    for s in f.body:
        _Rename(mapping).visit(s)
    return [mapping.get(pn, pn) for pn in params]


def event_names(repo_src):
    tree = ast.parse(open(os.path.join(repo_src, "redress", "events.py")).read())
    cls = next((n for n in tree.body if isinstance(n, ast.ClassDef) and n.name == "EventName"), None)
    if cls is None:
        raise TranslationError("EventName not found")
    out = {}
    for s in cls.body:
        if isinstance(s, ast.Assign) and len(s.targets) == 1 and isinstance(s.targets[0], ast.Name) and isinstance(s.value, ast.Constant):
            out[s.targets[0].id] = s.value.value
    return out


def translate(repo_src):
    path = os.path.join(repo_src, "redress", "circuit.py")
    tree = ast.parse(open(path).read(), filename=path)
    events = event_names(repo_src)
    imports, classes = set(), {}
    for n in tree.body:
        if isinstance(n, (ast.Import, ast.ImportFrom)):
            imports.add(ast.unparse(n))
        elif isinstance(n, ast.ClassDef):
            classes[n.name] = n
        else:
            raise TranslationError(f"module-level {type(n).__name__}")
    if imports != REQUIRED_IMPORTS:
        raise TranslationError(f"imports {sorted(imports)}")
    if sorted(classes) != ["CircuitBreaker", "CircuitState", "_BreakerDecision"]:
        raise TranslationError(f"classes {sorted(classes)}")
    # CircuitState: exactly the three members
    members = [s.targets[0].id for s in classes["CircuitState"].body if isinstance(s, ast.Assign) and isinstance(s.targets[0], ast.Name)]
    if members != STATES or len(classes["CircuitState"].body) != 3:
        raise TranslationError(f"CircuitState members {members}")
    # _BreakerDecision(allowed, state, event=None)
    fields = [(s.target.id, ast.unparse(s.value) if s.value is not None else None) for s in classes["_BreakerDecision"].body
              if isinstance(s, ast.AnnAssign) and isinstance(s.target, ast.Name)]
    if fields != [("allowed", None), ("state", None), ("event", "None")] or len(classes["_BreakerDecision"].body) != 3:
        raise TranslationError(f"_BreakerDecision fields {fields}")
    cx = Ctx(events)
    out = {}
    for f in classes["CircuitBreaker"].body:
        if isinstance(f, ast.Expr) and isinstance(f.value, ast.Constant) and isinstance(f.value.value, str):
            continue
        if not isinstance(f, ast.FunctionDef):
            raise TranslationError(f"class member {type(f).__name__}")
        a = f.args
        if f.name == "__init__":
            if f.decorator_list or a.vararg or a.kwarg or a.posonlyargs or len(a.args) != 1 or a.args[0].arg != "self":
                raise TranslationError("__init__: unsupported signature")
            for n in ast.walk(f):
                if isinstance(n, (ast.Global, ast.Nonlocal, ast.Lambda, ast.FunctionDef, ast.Try, ast.While)) and n is not f:
                    raise TranslationError(f"__init__: {type(n).__name__}")
            params = [x.arg for x in a.kwonlyargs]
            if params != INIT_PARAMS:
                raise TranslationError(f"__init__ parameters {params}")
            cx.init_defaults = {x.arg: (ast.unparse(d) if d is not None else None) for x, d in zip(a.kwonlyargs, a.kw_defaults)}
            canonical(f, params, False)
            out[f.name] = (params, seq([stmt(x, cx) for x in f.body]))
            continue
        decos = [ast.unparse(d) for d in f.decorator_list]
        if decos not in ([], ["property"]) or (decos == ["property"]) != (f.name == "state"):
            raise TranslationError(f"{f.name}: decorators {decos}")
        if a.vararg or a.kwarg or a.posonlyargs or a.kwonlyargs or a.defaults or not a.args or a.args[0].arg != "self":
            raise TranslationError(f"{f.name}: unsupported signature")
        for n in ast.walk(f):
            if isinstance(n, (ast.Global, ast.Nonlocal, ast.Lambda, ast.FunctionDef, ast.Try, ast.For)) and n is not f:
                raise TranslationError(f"{f.name}: {type(n).__name__}")
        if f.name in out:
            raise TranslationError(f"{f.name} defined twice")
        params = [x.arg for x in a.args[1:]]
        params = canonical(f, params, f.name.startswith("_"))
        out[f.name] = (params, seq([stmt(x, cx) for x in f.body]))
    if sorted(out) != sorted(METHODS):
        raise TranslationError(f"methods {sorted(out)}")
    if cx.init_defaults.get("trip_on") != "None" or cx.init_defaults.get("class_thresholds") != "None":
        raise TranslationError(f"__init__ defaults {cx.init_defaults}")
    return out, {k: events[k] for k in sorted(cx.used_events)}


def generate(repo_src, out_path, template_path):
    meths, used = translate(repo_src)
    lines = ["(* generated by harness/pyir_circuit.py from the current source of redress/circuit.py; do not edit *)",
             "From Redress Require Import Base Window Breaker BreakerProofs PyIRH.",
             "From Coq Require Import String Lia.", "Open Scope string_scope.", ""]
    for name, (params, body) in meths.items():
        ident = name.strip("_")
        lines.append(f"Definition {ident}_params : list string := [{'; '.join(q(p) for p in params)}].")
        lines.append(f"Definition {ident}_ir : stmt :=\n  {body}.")
    helpers = [n for n in meths if n.startswith("_") and n != "__init__"]
    lines.append("Definition circuit_helpers : helpers := [" + "; ".join(
        f"({q(n)}, ({n.strip('_')}_params, {n.strip('_')}_ir))" for n in helpers) + "].")
    lines.append("(* event names used: " + ", ".join(f"{k} = {v!r}" for k, v in used.items()) + " *)")
    lines.append("")
    lines.append(open(template_path).read())
    os.makedirs(os.path.dirname(out_path), exist_ok=True)
    with open(out_path, "w") as f:
        f.write("\n".join(lines))
    return meths, used


if __name__ == "__main__":
    import sys
    m, used = translate(sys.argv[1] if len(sys.argv) > 1 else "/repo/src")
    for k, v in m.items():
        print(k, v)
    print(used)
