"""Fail-closed translator: redress/classify.py's _classify / default_classifier / strict_classifier -> a PyIRC decision program
(ClassifyIR.v).  Anything outside the fragment raises TranslationError.  The three name heuristics are recognised only with
exactly the documented substring lists, because the abstraction of an exception used by the model (and by the harness when it
describes a generated exception to Coq) has one boolean per list."""
import ast
import os

from pyir_translate import TranslationError

MARKERS = {"TimeoutError": "KTimeout", "PermanentError": "KPermanent", "RateLimitError": "KRateLimit",
           "ConcurrencyError": "KConcurrency", "ServerError": "KServer"}
NAME_LISTS = {("auth", "unauthoriz", "credential"): "CNameAuth", ("forbid", "permission"): "CNamePerm",
              ("timeout", "connection"): "CNameTrans"}
KLASSES = ["AUTH", "PERMISSION", "PERMANENT", "CONCURRENCY", "RATE_LIMIT", "SERVER_ERROR", "TRANSIENT", "UNKNOWN"]


def klass(n):
    if isinstance(n, ast.Attribute) and isinstance(n.value, ast.Name) and n.value.id == "ErrorClass" and n.attr in KLASSES:
        return n.attr
    raise TranslationError(f"return value {ast.unparse(n)}")


def is_name(n, s):
    return isinstance(n, ast.Name) and n.id == s


def const_int(n):
    if isinstance(n, ast.Constant) and isinstance(n.value, int) and not isinstance(n.value, bool):
        return n.value
    raise TranslationError(f"integer literal expected: {ast.unparse(n)}")


def cond(n, err):
    # isinstance(err, T) / isinstance(code, int)
    if isinstance(n, ast.Call) and is_name(n.func, "isinstance") and len(n.args) == 2 and not n.keywords:
        if is_name(n.args[0], err) and isinstance(n.args[1], ast.Name) and n.args[1].id in MARKERS:
            return f"(CIsInst {MARKERS[n.args[1].id]})"
        if is_name(n.args[0], "code") and is_name(n.args[1], "int"):
            return "CCodeIsInt"
    if isinstance(n, ast.Compare) and is_name(n.left, "code") and len(n.ops) == 1:
        if isinstance(n.ops[0], ast.Eq):
            return f"(CCodeEq {const_int(n.comparators[0])})"
        if isinstance(n.ops[0], ast.In) and isinstance(n.comparators[0], (ast.Tuple, ast.Set, ast.List)):
            return "(CCodeIn [" + "; ".join(str(const_int(e)) for e in n.comparators[0].elts) + "])"
    # lo <= code < hi
    if (isinstance(n, ast.Compare) and len(n.ops) == 2 and isinstance(n.ops[0], ast.LtE) and isinstance(n.ops[1], ast.Lt)
            and is_name(n.comparators[0], "code")):
        return f"(CCodeRange {const_int(n.left)} {const_int(n.comparators[1])})"
    if is_name(n, "use_name_heuristics"):
        return "CHeur"
    # "<s>" in name [or "<s>" in name ...]
    parts = n.values if isinstance(n, ast.BoolOp) and isinstance(n.op, ast.Or) else [n]
    subs = []
    for p in parts:
        if (isinstance(p, ast.Compare) and len(p.ops) == 1 and isinstance(p.ops[0], ast.In) and is_name(p.comparators[0], "name")
                and isinstance(p.left, ast.Constant) and isinstance(p.left.value, str)):
            subs.append(p.left.value)
        else:
            raise TranslationError(f"condition {ast.unparse(n)}")
    if tuple(subs) in NAME_LISTS:
        return NAME_LISTS[tuple(subs)]
    raise TranslationError(f"name heuristic with substrings {subs}")


def block(stmts, err, top):
    """-> cprog for a statement list; an if-body ends with CFall, the function body must end with a return"""
    if not stmts:
        if top:
            raise TranslationError("function body does not end with a return")
        return "CFall"
    s, rest = stmts[0], stmts[1:]
    if isinstance(s, ast.Expr) and isinstance(s.value, ast.Constant) and isinstance(s.value.value, str):
        return block(rest, err, top)
    if isinstance(s, ast.Return) and s.value is not None:
        if rest:
            raise TranslationError("statements after return")
        return f"(CReturn {klass(s.value)})"
    if isinstance(s, ast.If) and not s.orelse:
        return f"(CIf {cond(s.test, err)} {block(s.body, err, False)} {block(rest, err, top)})"
    if isinstance(s, ast.Assign) and len(s.targets) == 1 and is_name(s.targets[0], "code"):
        want = f"getattr({err}, 'status', None) or getattr({err}, 'code', None)"
        if ast.unparse(s.value) != want:
            raise TranslationError(f"code = {ast.unparse(s.value)}")
        return f"(CBindCode {block(rest, err, top)})"
    if isinstance(s, ast.Assign) and len(s.targets) == 1 and is_name(s.targets[0], "name"):
        if ast.unparse(s.value) != f"type({err}).__name__.lower()":
            raise TranslationError(f"name = {ast.unparse(s.value)}")
        return f"(CBindName {block(rest, err, top)})"
    raise TranslationError(f"statement {ast.unparse(s)[:80]}")


def wrapper_flag(f):
    """def X(err): [docstring]; return _classify(err, use_name_heuristics=<bool>)"""
    body = [s for s in f.body if not (isinstance(s, ast.Expr) and isinstance(s.value, ast.Constant))]
    if len(body) == 1 and isinstance(body[0], ast.Return) and isinstance(body[0].value, ast.Call):
        c = body[0].value
        if (is_name(c.func, "_classify") and len(c.args) == 1 and is_name(c.args[0], f.args.args[0].arg) and len(c.keywords) == 1
                and c.keywords[0].arg == "use_name_heuristics" and isinstance(c.keywords[0].value, ast.Constant)
                and isinstance(c.keywords[0].value.value, bool)):
            return c.keywords[0].value.value
    raise TranslationError(f"{f.name}: not a call of _classify with a literal flag")


def translate(repo_src):
    path = os.path.join(repo_src, "redress", "classify.py")
    tree = ast.parse(open(path).read(), filename=path)
    funcs = {n.name: n for n in tree.body if isinstance(n, ast.FunctionDef)}
    for n in tree.body:
        if not isinstance(n, (ast.FunctionDef, ast.ClassDef, ast.Import, ast.ImportFrom)):
            raise TranslationError(f"module-level {type(n).__name__}")
    for need in ("_classify", "default_classifier", "strict_classifier"):
        if need not in funcs:
            raise TranslationError(f"{need} missing")
    f = funcs["_classify"]
    a = f.args
    if (f.decorator_list or a.vararg or a.kwarg or a.posonlyargs or len(a.args) != 1 or [x.arg for x in a.kwonlyargs] != ["use_name_heuristics"]
            or a.kw_defaults != [None]):
        raise TranslationError("_classify: unexpected signature")
    # the marker names must be the imported redress types / the builtin TimeoutError (not rebound in the module)
    imported = {al.asname or al.name for n in tree.body if isinstance(n, ast.ImportFrom) and n.module == "errors" and n.level == 1
                for al in n.names}
    for m in MARKERS:
        if m != "TimeoutError" and m not in imported:
            raise TranslationError(f"{m} is not imported from .errors")
    for n in ast.walk(tree):
        if isinstance(n, ast.Name) and isinstance(n.ctx, ast.Store) and n.id in list(MARKERS) + ["isinstance", "getattr", "type", "int"]:
            raise TranslationError(f"{n.id} is rebound")
    prog = block(f.body, a.args[0].arg, True)
    return prog, wrapper_flag(funcs["default_classifier"]), wrapper_flag(funcs["strict_classifier"])


ATTRS = {"status": "AStatus", "status_code": "AStatusCode", "code": "ACode"}


def needs_iterable(tree, module):
    """`Iterable` is collections.abc.Iterable (imported at module level, once)"""
    imps = [n for n in tree.body if isinstance(n, ast.ImportFrom) and any((a.asname or a.name) == "Iterable" for a in n.names)]
    if len(imps) != 1 or imps[0].module != "collections.abc" or imps[0].level != 0 \
            or any((a.asname or a.name) == "Iterable" and a.name != "Iterable" for a in imps[0].names):
        raise TranslationError(f"{module}: Iterable is not collections.abc.Iterable")
    for n in ast.walk(tree):
        if isinstance(n, (ast.FunctionDef, ast.ClassDef, ast.AsyncFunctionDef)) and n.name == "Iterable":
            raise TranslationError(f"{module}: Iterable is redefined")
        if isinstance(n, (ast.Import, ast.ImportFrom)) and n not in imps and any((a.asname or a.name).split(".")[0] == "Iterable" for a in n.names):
            raise TranslationError(f"{module}: Iterable is imported twice")



def translate_coerce(f):
    """_coerce_status(exc): `for attr in (<names>): val = getattr(exc, attr, None); if isinstance(val, int): return val`
    (unrolled), `for arg in getattr(exc, 'args', ()): if isinstance(arg, int) and lo <= arg <= hi: return arg`, `return None`"""
    exc = f.args.args[0].arg
    if f.decorator_list or len(f.args.args) != 1 or f.args.kwonlyargs or f.args.vararg or f.args.kwarg:
        raise TranslationError("_coerce_status: signature")
    out = []
    body = [s for s in f.body if not (isinstance(s, ast.Expr) and isinstance(s.value, ast.Constant))]
    # `args = getattr(exc, 'args', ()); if isinstance(args, Iterable): for arg in args: ...` reads like the loop over a tuple:
    # an `args` that cannot be iterated carries no arguments (Classify.e_args = [])
    flat = []
    guarded_args = False
    for i, s in enumerate(body):
        if ast.unparse(s) == f"args = getattr({exc}, 'args', ())":
            nxt = body[i + 1] if i + 1 < len(body) else None
            if not (isinstance(nxt, ast.If) and not nxt.orelse and ast.unparse(nxt.test) == "isinstance(args, Iterable)"
                    and len(nxt.body) == 1 and isinstance(nxt.body[0], ast.For)):
                raise TranslationError("_coerce_status: `args = getattr(...)` is not followed by `if isinstance(args, Iterable): for ...`")
            guarded_args = True
            continue
        if guarded_args and isinstance(s, ast.If) and ast.unparse(s.test) == "isinstance(args, Iterable)":
            flat.append(s.body[0])
            continue
        flat.append(s)
    if sum(isinstance(n, ast.Name) and n.id == "args" and isinstance(n.ctx, ast.Store) for n in ast.walk(f)) > 1:
        raise TranslationError("_coerce_status: args is assigned more than once")
    for s in flat:
        if isinstance(s, ast.For) and not s.orelse and isinstance(s.target, ast.Name):
            v = s.target.id
            if isinstance(s.iter, ast.Tuple) and all(isinstance(e, ast.Constant) and e.value in ATTRS for e in s.iter.elts):
                want = [f"val = getattr({exc}, {v}, None)", "if isinstance(val, int):\n    return val"]
                if [ast.unparse(x) for x in s.body] != want:
                    raise TranslationError(f"_coerce_status attribute loop body: {[ast.unparse(x) for x in s.body]}")
                out += [("attr", ATTRS[e.value]) for e in s.iter.elts]
                continue
            if ast.unparse(s.iter) == f"getattr({exc}, 'args', ())":
                raise TranslationError("_coerce_status iterates exc.args without checking that it can be iterated "
                                       "(a type's own `args` attribute may hold None, a number, a plain object)")
            if guarded_args and ast.unparse(s.iter) == "args" and len(s.body) == 1 and isinstance(s.body[0], ast.If) and not s.body[0].orelse:
                t = s.body[0].test
                if (isinstance(t, ast.BoolOp) and isinstance(t.op, ast.And) and len(t.values) == 2
                        and ast.unparse(t.values[0]) == f"isinstance({v}, int)" and isinstance(t.values[1], ast.Compare)
                        and len(t.values[1].ops) == 2 and all(isinstance(o, ast.LtE) for o in t.values[1].ops)
                        and is_name(t.values[1].comparators[0], v) and ast.unparse(s.body[0].body[0]) == f"return {v}"
                        and len(s.body[0].body) == 1):
                    out.append(("arg", const_int(t.values[1].left), const_int(t.values[1].comparators[1])))
                    continue
            raise TranslationError(f"_coerce_status loop: {ast.unparse(s)[:80]}")
        if isinstance(s, ast.Return) and isinstance(s.value, ast.Constant) and s.value.value is None and s is flat[-1]:
            continue
        raise TranslationError(f"_coerce_status statement: {ast.unparse(s)[:80]}")
    if not (body and isinstance(body[-1], ast.Return)):
        raise TranslationError("_coerce_status does not end with return None")
    term = "VNoneRet"
    for item in reversed(out):
        term = f"(VAttrInt {item[1]} {term})" if item[0] == "attr" else f"(VArgInt {item[1]} {item[2]} {term})"
    return term


def http_cond(n):
    """conditions of http_classifier over the variable `status`"""
    if isinstance(n, ast.Compare) and is_name(n.left, "status") and len(n.ops) == 1:
        if isinstance(n.ops[0], ast.Is) and isinstance(n.comparators[0], ast.Constant) and n.comparators[0].value is None:
            return "CCodeIsNone"
        if isinstance(n.ops[0], ast.Eq):
            return f"(CCodeEq {const_int(n.comparators[0])})"
        if isinstance(n.ops[0], ast.In) and isinstance(n.comparators[0], (ast.Tuple, ast.Set, ast.List)):
            return "(CCodeIn [" + "; ".join(str(const_int(e)) for e in n.comparators[0].elts) + "])"
    if (isinstance(n, ast.Compare) and len(n.ops) == 2 and isinstance(n.ops[0], ast.LtE) and isinstance(n.ops[1], ast.Lt)
            and is_name(n.comparators[0], "status")):
        return f"(CCodeRange {const_int(n.left)} {const_int(n.comparators[1])})"
    raise TranslationError(f"http_classifier condition {ast.unparse(n)}")


def http_ret(n, exc):
    if isinstance(n, ast.IfExp):
        return f"(CIf {http_cond(n.test)} {http_ret(n.body, exc)} {http_ret(n.orelse, exc)})"
    if isinstance(n, ast.Call) and is_name(n.func, "default_classifier") and len(n.args) == 1 and is_name(n.args[0], exc) and not n.keywords:
        return "CReturnDefault"
    return f"(CReturn {klass(n)})"


def http_block(stmts, exc, top):
    if not stmts:
        if top:
            raise TranslationError("http_classifier does not end with a return")
        return "CFall"
    s, rest = stmts[0], stmts[1:]
    if isinstance(s, ast.Expr) and isinstance(s.value, ast.Constant) and isinstance(s.value.value, str):
        return http_block(rest, exc, top)
    if isinstance(s, ast.Return) and s.value is not None:
        if rest:
            raise TranslationError("statements after return")
        return http_ret(s.value, exc)
    if isinstance(s, ast.If) and not s.orelse:
        return f"(CIf {http_cond(s.test)} {http_block(s.body, exc, False)} {http_block(rest, exc, top)})"
    raise TranslationError(f"http_classifier statement {ast.unparse(s)[:80]}")


def translate_http(repo_src):
    path = os.path.join(repo_src, "redress", "extras", "http.py")
    tree = ast.parse(open(path).read(), filename=path)
    needs_iterable(tree, "http")
    funcs = {n.name: n for n in tree.body if isinstance(n, ast.FunctionDef)}
    for need in ("_coerce_status", "http_classifier"):
        if need not in funcs:
            raise TranslationError(f"{need} missing")
    if not any(isinstance(n, ast.ImportFrom) and n.module == "classify" and n.level == 2 and any(a.name == "default_classifier" and a.asname is None for a in n.names)
               for n in tree.body):
        raise TranslationError("default_classifier is not imported from ..classify")
    for n in ast.walk(tree):
        if isinstance(n, ast.Name) and isinstance(n.ctx, ast.Store) and n.id in ("default_classifier", "_coerce_status", "isinstance", "getattr", "int", "Iterable"):
            raise TranslationError(f"{n.id} is rebound")
    coerce = translate_coerce(funcs["_coerce_status"])
    f = funcs["http_classifier"]
    exc = f.args.args[0].arg
    if f.decorator_list or len(f.args.args) != 1 or f.args.kwonlyargs or f.args.vararg or f.args.kwarg:
        raise TranslationError("http_classifier: signature")
    body = [s for s in f.body if not (isinstance(s, ast.Expr) and isinstance(s.value, ast.Constant))]
    if not (body and ast.unparse(body[0]) == f"status = _coerce_status({exc})"):
        raise TranslationError("http_classifier does not start with status = _coerce_status(exc)")
    return coerce, http_block(body[1:], exc, True)


REGEX = {r"\b([0-9A-Z]{5})\b": "SBoundary", r"\[([0-9A-Z]{5})\]": "SBracketed"}
EXTRACT_BODY = ["if not isinstance(args, Iterable):\n    return None", "for arg in args:\n    if isinstance(arg, str):\n        match = _SQLSTATE_RE.search(arg)\n        if match:\n"
                "            return match.group(1)", "return None"]


def codepoints(text):
    return "[" + "; ".join(str(ord(c)) for c in text) + "]"


def sql_cond(n, none_cond):
    """conditions of the SQLSTATE classifiers over `sqlstate` / `code`"""
    if isinstance(n, ast.BoolOp) and isinstance(n.op, ast.Or) and len(n.values) == 2:
        return f"(COr {sql_cond(n.values[0], none_cond)} {sql_cond(n.values[1], none_cond)})"
    if isinstance(n, ast.Compare) and len(n.ops) == 1 and isinstance(n.comparators[0], ast.Constant) and n.comparators[0].value is None:
        if is_name(n.left, "sqlstate") and isinstance(n.ops[0], ast.Is):
            return "CSqlIsNone"
        if is_name(n.left, "code") and isinstance(n.ops[0], ast.IsNot) and none_cond is not None:
            return f"(CNot {none_cond})"
    if (isinstance(n, ast.Compare) and is_name(n.left, "code") and len(n.ops) == 1 and isinstance(n.ops[0], ast.In)
            and isinstance(n.comparators[0], (ast.Set, ast.Tuple, ast.List))
            and all(isinstance(e, ast.Constant) and isinstance(e.value, str) for e in n.comparators[0].elts)):
        return "(CTextIn [" + "; ".join(codepoints(e.value) for e in n.comparators[0].elts) + "])"
    if (isinstance(n, ast.Call) and isinstance(n.func, ast.Attribute) and n.func.attr == "startswith" and is_name(n.func.value, "code")
            and len(n.args) == 1 and isinstance(n.args[0], ast.Constant) and isinstance(n.args[0].value, str) and not n.keywords):
        return f"(CTextStarts {codepoints(n.args[0].value)})"
    raise TranslationError(f"SQLSTATE condition {ast.unparse(n)}")


def sql_block(stmts, exc, top, none_cond):
    if not stmts:
        if top:
            raise TranslationError("classifier does not end with a return")
        return "CFall"
    s, rest = stmts[0], stmts[1:]
    if isinstance(s, ast.Expr) and isinstance(s.value, ast.Constant) and isinstance(s.value.value, str):
        return sql_block(rest, exc, top, none_cond)
    if isinstance(s, ast.Return) and s.value is not None:
        if rest:
            raise TranslationError("statements after return")
        return http_ret(s.value, exc)
    if isinstance(s, ast.If) and not s.orelse:
        return f"(CIf {sql_cond(s.test, none_cond)} {sql_block(s.body, exc, False, none_cond)} {sql_block(rest, exc, top, none_cond)})"
    if isinstance(s, ast.Try) and not s.orelse and not s.finalbody and len(s.handlers) == 1 and ast.unparse(s.handlers[0].type) == "ValueError" \
            and s.handlers[0].name is None and len(s.body) == 1:
        body, handler = ast.unparse(s.body[0]), [ast.unparse(x) for x in s.handlers[0].body]
        if body == "code = str(sqlstate)" and len(s.handlers[0].body) == 1 and isinstance(s.handlers[0].body[0], ast.Return):
            # str() refused: the handler returns; otherwise code is the text
            return f"(CIf CStrRefused {http_ret(s.handlers[0].body[0].value, exc)} {sql_block(rest, exc, top, none_cond)})"
        if body == "code = str(sqlstate) if sqlstate is not None else None" and handler == ["code = None"]:
            # code is None exactly when sqlstate is None or str() was refused
            return sql_block(rest, exc, top, "(COr CSqlIsNone CStrRefused)")
        raise TranslationError(f"try shape: {body} / {handler}")
    raise TranslationError(f"classifier statement {ast.unparse(s)[:80]}")


def translate_sql(repo_src, module, fname):
    path = os.path.join(repo_src, "redress", "extras", module + ".py")
    tree = ast.parse(open(path).read(), filename=path)
    needs_iterable(tree, module)
    funcs = {n.name: n for n in tree.body if isinstance(n, ast.FunctionDef)}
    regs = [n for n in tree.body if isinstance(n, ast.Assign) and len(n.targets) == 1 and is_name(n.targets[0], "_SQLSTATE_RE")]
    if len(regs) != 1 or not (isinstance(regs[0].value, ast.Call) and ast.unparse(regs[0].value.func) == "re.compile"
                              and len(regs[0].value.args) == 1 and isinstance(regs[0].value.args[0], ast.Constant)
                              and not regs[0].value.keywords):
        raise TranslationError(f"{module}: _SQLSTATE_RE")
    pat = regs[0].value.args[0].value
    if pat not in REGEX:
        raise TranslationError(f"{module}: regular expression {pat!r}")
    if "_extract_sqlstate" not in funcs or fname not in funcs:
        raise TranslationError(f"{module}: functions")
    ex = funcs["_extract_sqlstate"]
    body = [ast.unparse(x) for x in ex.body if not (isinstance(x, ast.Expr) and isinstance(x.value, ast.Constant))]
    if body != EXTRACT_BODY or [a.arg for a in ex.args.args] != ["args"]:
        raise TranslationError(f"{module}: _extract_sqlstate {body}")
    for n in ast.walk(tree):
        if isinstance(n, ast.Name) and isinstance(n.ctx, ast.Store) and n.id in ("default_classifier", "_extract_sqlstate", "isinstance", "getattr", "str", "re", "Iterable"):
            raise TranslationError(f"{module}: {n.id} is rebound")
    if sum(1 for n in ast.walk(tree) if isinstance(n, ast.Name) and isinstance(n.ctx, ast.Store) and n.id == "_SQLSTATE_RE") != 1:
        raise TranslationError(f"{module}: _SQLSTATE_RE assigned more than once")
    f = funcs[fname]
    exc = f.args.args[0].arg
    if f.decorator_list or len(f.args.args) != 1 or f.args.kwonlyargs or f.args.vararg or f.args.kwarg:
        raise TranslationError(f"{fname}: signature")
    stmts = [s for s in f.body if not (isinstance(s, ast.Expr) and isinstance(s.value, ast.Constant))]
    want = f"sqlstate = getattr({exc}, 'sqlstate', None) or _extract_sqlstate(getattr({exc}, 'args', ()))"
    if not (stmts and ast.unparse(stmts[0]) == want):
        raise TranslationError(f"{fname}: first statement")
    return f"(CBindSql {REGEX[pat]} {sql_block(stmts[1:], exc, True, None)})"


def generate(repo_src, out_path, template_path):
    prog, dflag, sflag = translate(repo_src)
    coerce, http = translate_http(repo_src)
    sql = translate_sql(repo_src, "sqlstate", "sqlstate_classifier")
    odbc = translate_sql(repo_src, "pyodbc", "pyodbc_classifier")
    b = lambda x: "true" if x else "false"
    lines = ["(* generated by harness/pyir_classify.py from the current source of redress/classify.py; do not edit *)",
             "From Redress Require Import Base Classify ClassifyProofs PyIRC.", "From Coq Require Import Lia.", "",
             f"Definition classify_ir : cprog :=\n  {prog}.",
             f"Definition default_heur : bool := {b(dflag)}.", f"Definition strict_heur : bool := {b(sflag)}.",
             f"Definition coerce_ir : vprog :=\n  {coerce}.",
             f"Definition http_ir : cprog :=\n  (CBindStatus coerce_ir {http}).",
             f"Definition sqlstate_ir : cprog :=\n  {sql}.", f"Definition pyodbc_ir : cprog :=\n  {odbc}.", "",
             open(template_path).read()]
    os.makedirs(os.path.dirname(out_path), exist_ok=True)
    with open(out_path, "w") as f:
        f.write("\n".join(lines))
    return prog


if __name__ == "__main__":
    import sys
    print(translate(sys.argv[1] if len(sys.argv) > 1 else "/repo/src"))
