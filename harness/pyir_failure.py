"""Fail-closed translator: _RetryState._handle_failure (redress/policy/state.py) -> a PyIRF program (FailureIR.v).
Every statement must have one of the shapes below (compared on the unparsed AST, so layout and comments do not matter);
anything else raises TranslationError.  The helpers it calls (record_failure, emit, elapsed, _select_strategy,
_build_backoff_context, Budget.consume) are not translated here: their meaning is the corresponding operation of Runner.v, tied
by the correspondence check (Budget.consume additionally by its own translation)."""
import ast
import os

from pyir_translate import TranslationError

STOPS = {"MAX_ATTEMPTS_PER_CLASS": "S_PERCLASS", "NON_RETRYABLE_CLASS": "S_NONRETRY", "MAX_UNKNOWN_ATTEMPTS": "S_UNKNOWN",
         "DEADLINE_EXCEEDED": "S_DEADLINE", "NO_STRATEGY": "S_NOSTRAT", "MAX_ATTEMPTS_GLOBAL": "S_GLOBAL", "BUDGET_EXHAUSTED": "S_BUDGET"}
EVENTS = {"MAX_ATTEMPTS_EXCEEDED": "N_MAX_ATTEMPTS_EXCEEDED", "PERMANENT_FAIL": "N_PERMANENT_FAIL",
          "MAX_UNKNOWN_ATTEMPTS_EXCEEDED": "N_MAX_UNKNOWN_ATTEMPTS_EXCEEDED", "DEADLINE_EXCEEDED": "N_DEADLINE_EXCEEDED",
          "NO_STRATEGY_CONFIGURED": "N_NO_STRATEGY_CONFIGURED", "BUDGET_EXHAUSTED": "N_BUDGET_EXHAUSTED"}
KLASSES = ["AUTH", "PERMISSION", "PERMANENT", "CONCURRENCY", "RATE_LIMIT", "SERVER_ERROR", "TRANSIENT", "UNKNOWN"]
QUANT = {"self.per_class_counts[klass]": "QClassCount", "self.unknown_attempts": "QUnknownCount", "attempt": "QAttempt",
         "self.policy.max_attempts": "QMaxAttempts", "self.elapsed()": "QElapsed", "self.policy.deadline": "QDeadline",
         "remaining_s": "QRemaining"}
OPTS = {"limit": "OClassLimit", "self.policy.max_unknown_attempts": "OMaxUnknown"}
CMP = {ast.Gt: "HGt", ast.GtE: "HGe", ast.Lt: "HLt", ast.LtE: "HLe"}


def u(n):
    return ast.unparse(n)


def quant(n):
    s = u(n)
    if s in QUANT:
        return QUANT[s]
    if isinstance(n, ast.Constant) and isinstance(n.value, int) and not isinstance(n.value, bool):
        return f"(QInt {n.value})" if n.value >= 0 else f"(QInt ({n.value}))"
    raise TranslationError(f"quantity {s}")


def klass_of(n):
    if isinstance(n, ast.Attribute) and isinstance(n.value, ast.Name) and n.value.id == "ErrorClass" and n.attr in KLASSES:
        return n.attr
    raise TranslationError(f"error class {u(n)}")


def cond(n, bound):
    # <opt> is not None and <a> <op> <opt>
    if isinstance(n, ast.BoolOp) and isinstance(n.op, ast.And) and len(n.values) == 2:
        a, b = n.values
        if (isinstance(a, ast.Compare) and len(a.ops) == 1 and isinstance(a.ops[0], ast.IsNot) and isinstance(a.comparators[0], ast.Constant)
                and a.comparators[0].value is None and u(a.left) in OPTS and isinstance(b, ast.Compare) and len(b.ops) == 1
                and type(b.ops[0]) in CMP and u(b.comparators[0]) == u(a.left)):
            if u(a.left) == "limit" and "limit" not in bound:
                raise TranslationError("limit used before it is bound")
            return f"(HOptCmp {OPTS[u(a.left)]} {quant(b.left)} {CMP[type(b.ops[0])]})"
        if u(n) == "self.policy.budget is not None and (not self.policy.budget.consume())":
            return "HBudgetRefuses"
        raise TranslationError(f"condition {u(n)}")
    if isinstance(n, ast.Compare) and len(n.ops) == 1:
        op, left, right = n.ops[0], n.left, n.comparators[0]
        if u(left) == "klass" and isinstance(op, ast.In) and isinstance(right, (ast.Tuple, ast.Set, ast.List)):
            return "(HKlassIn [" + "; ".join(klass_of(e) for e in right.elts) + "])"
        if u(left) == "klass" and isinstance(op, ast.Is):
            return f"(HKlassIs {klass_of(right)})"
        if u(left) == "strategy" and isinstance(op, ast.Is) and isinstance(right, ast.Constant) and right.value is None:
            if "strategy" not in bound:
                raise TranslationError("strategy used before it is bound")
            return "HNoStrategy"
        if type(op) in CMP:
            if "remaining_s" in (u(left), u(right)) and "remaining_s" not in bound:
                raise TranslationError("remaining_s used before it is bound")
            return f"(HCmp {quant(left)} {CMP[type(op)]} {quant(right)})"
    raise TranslationError(f"condition {u(n)}")


def stop_block(stmts):
    """self.last_stop_reason = StopReason.X; self.emit(EventName.Y.value, attempt, 0.0, klass, exc, stop_reason=StopReason.X,
    cause=cause); return _RetryDecision('raise')"""
    if len(stmts) != 3:
        return None
    a, b, c = (u(s) for s in stmts)
    if not a.startswith("self.last_stop_reason = StopReason."):
        return None
    x = a.rsplit(".", 1)[1]
    if x not in STOPS or c != "return _RetryDecision('raise')":
        raise TranslationError(f"stop block {a} / {c}")
    pre, post = "self.emit(EventName.", f".value, attempt, 0.0, klass, exc, stop_reason=StopReason.{x}, cause=cause)"
    if not (b.startswith(pre) and b.endswith(post)):
        raise TranslationError(f"stop block emit {b}")
    y = b[len(pre):-len(post)]
    if y not in EVENTS:
        raise TranslationError(f"stop block event {y}")
    return f"(HStop {STOPS[x]} {EVENTS[y]})"


SEQS = [
    (["self.record_failure(classification=classification, cause=cause, exc=exc, result=result)"], "HRecordFailure", None),
    (["klass = classification.klass"], None, "klass"),
    (["self.per_class_counts[klass] += 1"], "HBumpClass", None),
    (["limit = self.policy.per_class_max_attempts.get(klass)"], None, "limit"),
    (["self.unknown_attempts += 1"], "HBumpUnknown", None),
    (["strategy = self.policy._select_strategy(klass)"], "HSelectStrategy", "strategy"),
    (["self._last_strategy = strategy", "record_failure = getattr(strategy, 'record_failure', None)",
      "if callable(record_failure):\n    record_failure(klass)"], "HFeedback", None),
    (["remaining = self.policy.deadline - self.elapsed()", "remaining_s = remaining.total_seconds()"], "HBindRemaining", "remaining_s"),
    (["ctx = _build_backoff_context(attempt=attempt, classification=classification, prev_sleep_s=self.prev_sleep, "
      "remaining_s=remaining_s, cause=cause)", "sleep_s = strategy(ctx)"], "HCallStrategy", "sleep_s"),
    # Runner.sanitize: NaN / infinities -> 0, then max(0, .) and min(., remaining).  isfinite() is asked inside a guard: for an int no
    # float can hold it raises OverflowError, and such a value is finite (finding 7.20)
    (["try:\n    finite = math.isfinite(sleep_s)\nexcept OverflowError:\n    finite = True", "if not finite:\n    sleep_s = 0.0",
      "sleep_s = max(0.0, sleep_s)", "sleep_s = min(sleep_s, remaining_s)"], "HSanitize", None),
    (["self.prev_sleep = sleep_s"], "HSetPrev", None),
    (["self.emit(EventName.RETRY.value, attempt, sleep_s, klass, exc, cause=cause, classification=classification)",
      "return _RetryDecision('retry', sleep_s, ctx)"], "HRetry", None),
]
NEEDS = {"HBumpClass": ["klass"], "HSelectStrategy": ["klass"], "HFeedback": ["strategy", "klass"], "HCallStrategy": ["strategy", "remaining_s"],
         "HSanitize": ["sleep_s", "remaining_s"], "HSetPrev": ["sleep_s"], "HRetry": ["sleep_s", "klass"]}


def block(stmts, bound):
    out = []
    i = 0
    while i < len(stmts):
        s = stmts[i]
        if isinstance(s, ast.Expr) and isinstance(s.value, ast.Constant) and isinstance(s.value.value, str):
            i += 1
            continue
        if isinstance(s, ast.If) and not s.orelse and u(s.test) != "not finite":
            c = cond(s.test, bound)
            st = stop_block(s.body)
            body = [st] if st is not None else block(s.body, bound)
            out.append(f"(HIf {c} [{'; '.join(body)}])")
            i += 1
            continue
        for texts, token, binds in SEQS:
            if [u(x) for x in stmts[i:i + len(texts)]] == texts:
                for need in NEEDS.get(token, []):
                    if need not in bound:
                        raise TranslationError(f"{need} used before it is bound ({texts[0][:40]})")
                if token is not None:
                    out.append(token)
                if binds:
                    bound.add(binds)
                i += len(texts)
                break
        else:
            raise TranslationError(f"statement {u(s)[:100]}")
    return out


def translate(repo_src):
    path = os.path.join(repo_src, "redress", "policy", "state.py")
    tree = ast.parse(open(path).read(), filename=path)
    cls = next((n for n in tree.body if isinstance(n, ast.ClassDef) and n.name == "_RetryState"), None)
    if cls is None:
        raise TranslationError("_RetryState not found")
    fs = [f for f in cls.body if isinstance(f, ast.FunctionDef) and f.name == "_handle_failure"]
    if len(fs) != 1:
        raise TranslationError("_handle_failure not found (or defined twice)")
    f = fs[0]
    a = f.args
    if (f.decorator_list or [x.arg for x in a.args] != ["self"] or [x.arg for x in a.kwonlyargs] != ["classification", "attempt", "cause", "exc", "result"]
            or any(d is not None for d in a.kw_defaults) or a.vararg or a.kwarg):
        raise TranslationError("_handle_failure: signature")
    # the two public entry points hand over the cause literally
    for name, cause in (("handle_exception", "exception"), ("handle_result", "result")):
        g = next((x for x in cls.body if isinstance(x, ast.FunctionDef) and x.name == name), None)
        if g is None or f"cause='{cause}'" not in u(g) or "self._handle_failure(" not in u(g):
            raise TranslationError(f"{name} does not call _handle_failure with cause='{cause}'")
    prog = block(f.body, set())
    if not prog or prog[-1] != "HRetry":
        raise TranslationError("_handle_failure does not end with the retry decision")
    return prog


def generate(repo_src, out_path, template_path):
    prog = translate(repo_src)
    lines = ["(* generated by harness/pyir_failure.py from the current source of redress/policy/state.py; do not edit *)",
             "From Redress Require Import Base Window Budget Runner PyIRF.", "From Coq Require Import Lia.", "",
             "Definition handle_failure_ir : list hstmt :=\n  [" + ";\n   ".join(prog) + "].", "", open(template_path).read()]
    os.makedirs(os.path.dirname(out_path), exist_ok=True)
    with open(out_path, "w") as f:
        f.write("\n".join(lines))
    return prog


if __name__ == "__main__":
    import sys
    for t in translate(sys.argv[1] if len(sys.argv) > 1 else "/repo/src"):
        print(t)
