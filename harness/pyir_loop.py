"""Fail-closed translator: the bodies of the retry loops (redress/policy/runner/sync_core.py: _run_sync_call, _run_sync_execute)
-> PyIRL token lists (LoopIR.v).  async_core.py's two functions must be the same statements up to `await`, the async helper
names and the attempt-timeout call.  The loop skeleton (state construction, `for attempt in range(1, policy.max_attempts + 1)`,
the fall-through after the loop) and the small helpers of runner/logic.py and retry_helpers.py whose meaning PyIRL.v fixes
(determine_action_from_outcome, handle_abort_in_call, emit_success, should_classify_result, raise_scheduled,
emit_max_attempts_exceeded, raise_exhausted_call, build_exhausted_outcome, _abort_outcome, _build_outcome,
_handle_abort_attempt_end, _handle_success_attempt_end, and the state operations of policy/state.py: __init__, check_abort, elapsed,
emit, record_failure, record_success, handle_exception, handle_result) must have exactly their present statements (pinned by digest).  Statements are compared on the
unparsed AST, so layout and comments do not matter; anything else raises TranslationError."""
import ast
import hashlib
import os

from pyir_translate import TranslationError


def u(n):
    return ast.unparse(n)


def is_doc(s):
    return isinstance(s, ast.Expr) and isinstance(s.value, ast.Constant) and isinstance(s.value.value, str)


def body_text(f):
    return "\n".join(u(s) for s in f.body if not is_doc(s))


FAILURE_OUTCOME = ("outcome = _sync_failure_outcome(state=state, attempt=attempt, decision=decision, classification={cl}, "
                   "exception={exc}, result={res}, cause=attempt_state.cause, sleep_fn=sleep_fn, before_sleep=before_sleep, sleeper=sleeper)")
SIMPLE = {
    "attempt_state = AttemptState()": "LNewAttemptState",
    "state.check_abort(attempt - 1)": "(LCheckAbort true)",
    "state.check_abort(attempt)": "(LCheckAbort false)",
    "_call_attempt_start(attempt_start_hook, state=state, attempt=attempt)": "LAttemptStart",
    "attempt_state.started = True": "LMarkStarted",
    "attempts = attempt": "LSetAttempts",
    "needs_retry, classification = should_classify_result(policy, result)": "LClassifyResult",
    "_handle_success_attempt_end(attempt_end_hook, state, attempt, result)": "LSuccessEnd",
    "return result": "LReturnResult",
    "return cast(RetryOutcome[T], _build_outcome(ok=True, value=result, state=state, attempts=attempts, timeline=timeline))": "LReturnOkOutcome",
    "assert classification is not None": "LAssertClassified",
    "attempt_state.classification = classification": "LNoteResult",
    "attempt_state.result = result": "LNoteResult",
    "attempt_state.cause = 'exception'": "(LSetCause CExc)",
    "attempt_state.cause = 'result'": "(LSetCause CRes)",
    "decision = state.handle_exception(exc, attempt)": "LHandleException",
    "decision = state.handle_result(result, classification, attempt)": "LHandleResult",
    "attempt_state.classification = state.last_classification": "LNoteClassification",
    FAILURE_OUTCOME.format(cl="attempt_state.classification", exc="exc", res="None"): "(LFailureOutcome CExc)",
    FAILURE_OUTCOME.format(cl="classification", exc="None", res="result"): "(LFailureOutcome CRes)",
    "_call_attempt_end_from_outcome(attempt_end_hook, state=state, attempt=attempt, outcome=outcome)": "LAttemptEnd",
    "attempt_state.end_called = True": "LMarkEnd",
    "action = determine_action_from_outcome(outcome, state, attempt)": "(LDetermine false)",
    "action = determine_action_from_outcome(outcome, state, attempt, for_result=True)": "(LDetermine true)",
    "raise AbortRetryError() from None": "LRaiseAbort",
    "raise AbortRetryError()": "LRaiseAbort",
    "raise_scheduled(action)": "LRaiseScheduled",
    "raise": "LReraise",
    "raise RetryExhaustedError(stop_reason=action.stop_reason if isinstance(action, ScheduledAction) else state.last_stop_reason or "
    "StopReason.MAX_ATTEMPTS_GLOBAL, attempts=attempt, last_class=state.last_class, last_exception=None, last_result=state.last_result)":
        "LRaiseExhaustedResult",
    "_handle_abort_attempt_end(attempt_end_hook, state, attempt, attempt_state, exc)": "LAbortAttemptEnd",
    "handle_abort_in_call(state, attempt)": "LAbortInCall",
    "return cast(RetryOutcome[T], _abort_outcome(state, attempts, timeline=timeline))": "LReturnAbortOutcome",
    "next_sleep_s = outcome.sleep_s if outcome.decision is AttemptDecision.SCHEDULED else None": "LBindNext",
    "return cast(RetryOutcome[T], _build_outcome(ok=False, value=None, state=state, attempts=attempts, next_sleep_s=next_sleep_s, "
    "timeline=timeline))": "LReturnStopOutcome",
}
CALL_OP = {False: "if attempt_timeout_s is None:\n    result = func()\nelse:\n    result = _call_with_timeout(func, attempt_timeout_s)",
           True: "if attempt_timeout_s is None:\n    result = await func()\nelse:\n    result = await asyncio.wait_for(func(), timeout=attempt_timeout_s)"}
HANDLERS = {"AbortRetryError": "HAbortRetry", "asyncio.CancelledError": "HCancelled", "(KeyboardInterrupt, SystemExit)": "HKbdSysExit",
            "RetryExhaustedError": "HRetryExhausted", "Exception": "HException"}
# handlers that bind a name: the name must be `exc` where the body uses it
BINDS = {"AbortRetryError": (None, "exc"), "Exception": ("exc",), "asyncio.CancelledError": (None,), "(KeyboardInterrupt, SystemExit)": (None,),
         "RetryExhaustedError": (None,)}
IFS = {"not needs_retry": "LIfSuccess", "decision.action != 'raise'": "LIfRetry", "isinstance(action, AbortAction)": "LIfAbort",
       "isinstance(action, ScheduledAction)": "LIfScheduled"}


def lst(items):
    return "[" + "; ".join(items) + "]"


def block(stmts, is_async, exc_bound):
    out = []
    for s in stmts:
        if is_doc(s):
            continue
        text = u(s)
        if is_async:
            text = text.replace("await _async_failure_outcome(", "_sync_failure_outcome(")
        if text == CALL_OP[is_async]:
            out.append("LCallOp")
        elif text == "if isinstance(action, ContinueAction):\n    continue":
            out.append("LIfContinue")
        elif isinstance(s, ast.If) and not s.orelse and u(s.test) in IFS:
            out.append(f"({IFS[u(s.test)]} {lst(block(s.body, is_async, exc_bound))})")
        elif isinstance(s, ast.Try):
            if s.orelse or s.finalbody or not s.handlers:
                raise TranslationError("try statement with else/finally or without handlers")
            hs = []
            for h in s.handlers:
                ty = u(h.type) if h.type is not None else None
                if ty not in HANDLERS:
                    raise TranslationError(f"except clause {ty}")
                if h.name not in BINDS[ty]:
                    raise TranslationError(f"except {ty} as {h.name}")
                hs.append(f"LExcept {HANDLERS[ty]} {lst(block(h.body, is_async, exc_bound or h.name == 'exc'))}")
            out.append(f"(LTry {lst(block(s.body, is_async, exc_bound))} {lst(hs)})")
        elif text in SIMPLE:
            tok = SIMPLE[text]
            if tok in ("LHandleException", "LAbortAttemptEnd", "(LFailureOutcome CExc)") and not exc_bound:
                raise TranslationError(f"`exc` used outside a handler that binds it: {text[:60]}")
            out.append(tok)
        else:
            raise TranslationError(f"statement {text[:110]}")
    return out


STATE = "state = _RetryState(policy=policy, on_metric={metric}, on_log=on_log, operation=operation, abort_if=abort_if)"
PRE = {"call": [STATE.format(metric="on_metric"), "attempt_timeout_s = policy.attempt_timeout_s"],
       "execute": ["timeline, metric_hook = _resolve_timeline(capture_timeline, on_metric)", STATE.format(metric="metric_hook"), "attempts = 0",
                   "attempt_timeout_s = policy.attempt_timeout_s"]}
POST = {"call": ["raise_exhausted_call(state, policy)"],
        "execute": ["return cast(RetryOutcome[T], build_exhausted_outcome(state, policy, attempts, timeline))"]}

# helpers whose meaning PyIRL.v / Runner.v fix: sha256 of their unparsed statements (printed by `python pyir_loop.py --pins`)
PINS = {
    "runner/logic.py:should_classify_result": "38a22b30c9577e7d",
    "runner/logic.py:determine_action_from_outcome": "c81f8afbbaa62421",
    "runner/logic.py:handle_abort_in_call": "07d65e494188ac07",
    "runner/logic.py:emit_success": "888b2bf88286e1e7",
    "runner/logic.py:emit_max_attempts_exceeded": "39080ea94ddbbcae",
    "runner/logic.py:raise_exhausted_call": "77d745237e1d6443",
    "runner/logic.py:build_exhausted_outcome": "e017dae5ade86854",
    "runner/logic.py:raise_scheduled": "8a11354d08dcc2e2",
    "retry_helpers.py:_build_outcome": "3fdcf79bcc2ccd48",
    "retry_helpers.py:_abort_outcome": "bf6206c8be6415ca",
    "retry_helpers.py:_call_attempt_end_from_outcome": "a93b5b714a9f4097",
    "state.py:_RetryState.__init__": "9f427f4c87d14c29",
    "state.py:_RetryState.check_abort": "2610334d9bec7285",
    "state.py:_RetryState.elapsed": "740efcc5cadd83e3",
    "state.py:_RetryState.emit": "657de99d7f0d6640",
    "state.py:_RetryState.record_failure": "a77b891670b3b631",
    "state.py:_RetryState.record_success": "581ce65e4b957860",
    "state.py:_RetryState.handle_exception": "79f9f0067ffa5bd0",
    "state.py:_RetryState.handle_result": "1f468eb12a487206",
    "state.py:_build_backoff_context": "778373a550722f47",
    "runner/sync_core.py:_handle_abort_attempt_end": "8839634ab63a8b78",
    "runner/sync_core.py:_handle_success_attempt_end": "03aa26ef696e443c",
    "runner/async_core.py:_handle_abort_attempt_end": "8839634ab63a8b78",
    "runner/async_core.py:_handle_success_attempt_end": "03aa26ef696e443c",
}


def helper_digest(f):
    return hashlib.sha256(body_text(f).encode()).hexdigest()[:16]


HELPERS = {"runner/logic.py": ["should_classify_result", "determine_action_from_outcome", "handle_abort_in_call", "emit_success",
                               "emit_max_attempts_exceeded", "raise_exhausted_call", "build_exhausted_outcome", "raise_scheduled"],
           "retry_helpers.py": ["_build_outcome", "_abort_outcome", "_call_attempt_end_from_outcome"],
           # the state operations every translated fragment (PyIRF, PyIRS, PyIRL) reads as Runner.v's emit / check_abort / ...
           "state.py": ["_RetryState.__init__", "_RetryState.check_abort", "_RetryState.elapsed", "_RetryState.emit",
                        "_RetryState.record_failure", "_RetryState.record_success", "_RetryState.handle_exception",
                        "_RetryState.handle_result", "_build_backoff_context"],
           "runner/sync_core.py": ["_handle_abort_attempt_end", "_handle_success_attempt_end"],
           "runner/async_core.py": ["_handle_abort_attempt_end", "_handle_success_attempt_end"]}


def functions(path):
    tree = ast.parse(open(path).read(), filename=path)
    fs = {}

    def add(name, n):
        if name in fs:
            raise TranslationError(f"{name} defined twice in {path}")
        fs[name] = n
    for n in tree.body:
        if isinstance(n, (ast.FunctionDef, ast.AsyncFunctionDef)):
            add(n.name, n)
        elif isinstance(n, ast.ClassDef):
            for k in n.body:
                if isinstance(k, (ast.FunctionDef, ast.AsyncFunctionDef)):
                    add(f"{n.name}.{k.name}", k)
    return fs


def loop_of(f, kind, is_async):
    """-> the For node, after checking the statements around it"""
    stmts = [s for s in f.body if not is_doc(s)]
    pre, post = PRE[kind], POST[kind]
    if len(stmts) != len(pre) + 1 + len(post) or [u(s) for s in stmts[:len(pre)]] != pre or [u(s) for s in stmts[len(pre) + 1:]] != post:
        raise TranslationError(f"{f.name}: the statements around the loop have changed")
    loop = stmts[len(pre)]
    if not (isinstance(loop, ast.For) and not loop.orelse and u(loop.target) == "attempt" and u(loop.iter) == "range(1, policy.max_attempts + 1)"):
        raise TranslationError(f"{f.name}: loop header")
    if f.decorator_list or isinstance(f, ast.AsyncFunctionDef) != is_async:
        raise TranslationError(f"{f.name}: kind")
    return loop


def pins(repo_src):
    base = os.path.join(repo_src, "redress", "policy")
    out = {}
    for rel, names in HELPERS.items():
        fs = functions(os.path.join(base, rel))
        for n in names:
            if n not in fs:
                raise TranslationError(f"{rel}: {n} missing")
            out[f"{rel}:{n}"] = helper_digest(fs[n])
    return out


def translate(repo_src):
    base = os.path.join(repo_src, "redress", "policy", "runner")
    sync, asyn = functions(os.path.join(base, "sync_core.py")), functions(os.path.join(base, "async_core.py"))
    progs = {}
    for kind in ("call", "execute"):
        for name, fs, is_async in ((f"_run_sync_{kind}", sync, False), (f"_run_async_{kind}", asyn, True)):
            if name not in fs:
                raise TranslationError(f"{name} missing")
            progs[name] = block(loop_of(fs[name], kind, is_async).body, is_async, False)
        if progs[f"_run_sync_{kind}"] != progs[f"_run_async_{kind}"]:
            raise TranslationError(f"_run_async_{kind} is not _run_sync_{kind} up to await")
    now = pins(repo_src)
    for k, v in now.items():
        if PINS.get(k) != v:
            raise TranslationError(f"helper {k} has changed (its meaning is fixed in PyIRL.v): digest {v}, expected {PINS.get(k)}")
    return progs["_run_sync_call"], progs["_run_sync_execute"]


def generate(repo_src, out_path, template_path):
    call, execute = translate(repo_src)
    fmt = lambda l: "[" + ";\n   ".join(l) + "]"
    lines = ["(* generated by harness/pyir_loop.py from the current source of redress/policy/runner/{sync,async}_core.py; do not edit *)",
             "From Redress Require Import Base Window Budget Runner RunnerProofs PyIRL.", "From Coq Require Import Lia.", "",
             f"Definition call_body_ir : list ltok :=\n  {fmt(call)}.", f"Definition execute_body_ir : list ltok :=\n  {fmt(execute)}.", "",
             open(template_path).read()]
    os.makedirs(os.path.dirname(out_path), exist_ok=True)
    with open(out_path, "w") as f:
        f.write("\n".join(lines))
    return {"call": call, "execute": execute}


if __name__ == "__main__":
    import sys
    args = [a for a in sys.argv[1:] if not a.startswith("--")]
    src = args[0] if args else "/repo/src"
    if "--pins" in sys.argv:
        import json
        print(json.dumps(pins(src), indent=4))
    else:
        for part in translate(src):
            print("\n".join(part))
            print()
