"""Fail-closed translator: the bodies of the retry loops (redress/policy/runner/sync_core.py: _run_sync_call, _run_sync_execute)
-> PyIRL token lists (LoopIR.v).  async_core.py's two functions must be the same statements up to `await`, the async helper
names and the attempt-timeout call.  The loop skeleton (state construction, `for attempt in range(1, policy.max_attempts + 1)`,
the fall-through after the loop) and the small helpers of runner/logic.py and retry_helpers.py whose meaning PyIRL.v fixes
(determine_action_from_outcome, handle_abort_in_call, emit_success, should_classify_result, raise_scheduled,
emit_max_attempts_exceeded, raise_exhausted_call, build_exhausted_outcome, _abort_outcome, _build_outcome,
_handle_abort_attempt_end, _handle_success_attempt_end, and the state operations of policy/state.py: __init__, check_abort, elapsed,
emit, record_failure, record_success, handle_exception, handle_result) must have exactly their present statements (pinned by digest).  Statements are compared on the
unparsed AST, so layout and comments do not matter; anything else raises TranslationError."""
import ast
import hashlib
import os

from pyir_translate import TranslationError


def u(n):
    return ast.unparse(n)


def is_doc(s):
    return isinstance(s, ast.Expr) and isinstance(s.value, ast.Constant) and isinstance(s.value.value, str)


def body_text(f):
    return "\n".join(u(s) for s in f.body if not is_doc(s))


FAILURE_OUTCOME = ("outcome = _sync_failure_outcome(state=state, attempt=attempt, decision=decision, classification={cl}, "
                   "exception={exc}, result={res}, cause=attempt_state.cause, sleep_fn=sleep_fn, before_sleep=before_sleep, sleeper=sleeper)")
SIMPLE = {
    "attempt_state = AttemptState()": "LNewAttemptState",
    "state.check_abort(attempt - 1)": "(LCheckAbort true)",
    "state.check_abort(attempt)": "(LCheckAbort false)",
    "_call_attempt_start(attempt_start_hook, state=state, attempt=attempt)": "LAttemptStart",
    "attempt_state.started = True": "LMarkStarted",
    "attempts = attempt": "LSetAttempts",
    "needs_retry, classification = should_classify_result(policy, result)": "LClassifyResult",
    "_handle_success_attempt_end(attempt_end_hook, state, attempt, result)": "LSuccessEnd",
    "return result": "LReturnResult",
    "return cast(RetryOutcome[T], _build_outcome(ok=True, value=result, state=state, attempts=attempts, timeline=timeline))": "LReturnOkOutcome",
    "assert classification is not None": "LAssertClassified",
    "attempt_state.classification = classification": "LNoteResult",
    "attempt_state.result = result": "LNoteResult",
    "attempt_state.cause = 'exception'": "(LSetCause CExc)",
    "attempt_state.cause = 'result'": "(LSetCause CRes)",
    "decision = state.handle_exception(exc, attempt)": "LHandleException",
    "decision = state.handle_result(result, classification, attempt)": "LHandleResult",
    "attempt_state.classification = state.last_classification": "LNoteClassification",
    FAILURE_OUTCOME.format(cl="attempt_state.classification", exc="exc", res="None"): "(LFailureOutcome CExc)",
    FAILURE_OUTCOME.format(cl="classification", exc="None", res="result"): "(LFailureOutcome CRes)",
    "_call_attempt_end_from_outcome(attempt_end_hook, state=state, attempt=attempt, outcome=outcome)": "LAttemptEnd",
    "attempt_state.end_called = True": "LMarkEnd",
    "action = determine_action_from_outcome(outcome, state, attempt)": "(LDetermine false)",
    "action = determine_action_from_outcome(outcome, state, attempt, for_result=True)": "(LDetermine true)",
    "raise AbortRetryError() from None": "LRaiseAbort",
    "raise AbortRetryError()": "LRaiseAbort",
    "raise_scheduled(action)": "LRaiseScheduled",
    "raise": "LReraise",
    "raise RetryExhaustedError(stop_reason=action.stop_reason if isinstance(action, ScheduledAction) else state.last_stop_reason or "
    "StopReason.MAX_ATTEMPTS_GLOBAL, attempts=attempt, last_class=state.last_class, last_exception=None, last_result=state.last_result)":
        "LRaiseExhaustedResult",
    "_handle_abort_attempt_end(attempt_end_hook, state, attempt, attempt_state, exc)": "LAbortAttemptEnd",
    "handle_abort_in_call(state, attempt)": "LAbortInCall",
    "return cast(RetryOutcome[T], _abort_outcome(state, attempts, timeline=timeline))": "LReturnAbortOutcome",
    "next_sleep_s = outcome.sleep_s if outcome.decision is AttemptDecision.SCHEDULED else None": "LBindNext",
    "return cast(RetryOutcome[T], _build_outcome(ok=False, value=None, state=state, attempts=attempts, next_sleep_s=next_sleep_s, "
    "timeline=timeline))": "LReturnStopOutcome",
}
CALL_OP = {False: "if attempt_timeout_s is None:\n    result = func()\nelse:\n    result = _call_with_timeout(func, attempt_timeout_s)",
           True: "if attempt_timeout_s is None:\n    result = await func()\nelse:\n    result = await asyncio.wait_for(func(), timeout=attempt_timeout_s)"}
HANDLERS = {"AbortRetryError": "HAbortRetry", "asyncio.CancelledError": "HCancelled", "(KeyboardInterrupt, SystemExit)": "HKbdSysExit",
            "RetryExhaustedError": "HRetryExhausted", "Exception": "HException"}
# handlers that bind a name: the name must be `exc` where the body uses it
BINDS = {"AbortRetryError": (None, "exc"), "Exception": ("exc",), "asyncio.CancelledError": (None,), "(KeyboardInterrupt, SystemExit)": (None,),
         "RetryExhaustedError": (None,)}
IFS = {"not needs_retry": "LIfSuccess", "decision.action != 'raise'": "LIfRetry", "isinstance(action, AbortAction)": "LIfAbort",
       "isinstance(action, ScheduledAction)": "LIfScheduled"}


def lst(items):
    return "[" + "; ".join(items) + "]"


def block(stmts, is_async, exc_bound):
    out = []
    for s in stmts:
        if is_doc(s):
            continue
        text = u(s)
        if is_async:
            text = text.replace("await _async_failure_outcome(", "_sync_failure_outcome(")
        if text == CALL_OP[is_async]:
            out.append("LCallOp")
        elif text == "if isinstance(action, ContinueAction):\n    continue":
            out.append("LIfContinue")
        elif isinstance(s, ast.If) and not s.orelse and u(s.test) in IFS:
            out.append(f"({IFS[u(s.test)]} {lst(block(s.body, is_async, exc_bound))})")
        elif isinstance(s, ast.Try):
            if s.orelse or s.finalbody or not s.handlers:
                raise TranslationError("try statement with else/finally or without handlers")
            hs = []
            for h in s.handlers:
                ty = u(h.type) if h.type is not None else None
                if ty not in HANDLERS:
                    raise TranslationError(f"except clause {ty}")
                if h.name not in BINDS[ty]:
                    raise TranslationError(f"except {ty} as {h.name}")
                hs.append(f"LExcept {HANDLERS[ty]} {lst(block(h.body, is_async, exc_bound or h.name == 'exc'))}")
            out.append(f"(LTry {lst(block(s.body, is_async, exc_bound))} {lst(hs)})")
        elif text in SIMPLE:
            tok = SIMPLE[text]
            if tok in ("LHandleException", "LAbortAttemptEnd", "(LFailureOutcome CExc)") and not exc_bound:
                raise TranslationError(f"`exc` used outside a handler that binds it: {text[:60]}")
            out.append(tok)
        else:
            raise TranslationError(f"statement {text[:110]}")
    return out


STATE = "state = _RetryState(policy=policy, on_metric={metric}, on_log=on_log, operation=operation, abort_if=abort_if)"
PRE = {"call": [STATE.format(metric="on_metric"), "attempt_timeout_s = policy.attempt_timeout_s"],
       "execute": ["timeline, metric_hook = _resolve_timeline(capture_timeline, on_metric)", STATE.format(metric="metric_hook"), "attempts = 0",
                   "attempt_timeout_s = policy.attempt_timeout_s"]}
POST = {"call": ["raise_exhausted_call(state, policy)"],
        "execute": ["return cast(RetryOutcome[T], build_exhausted_outcome(state, policy, attempts, timeline))"]}

# helpers whose meaning PyIRL.v / Runner.v fix: sha256 of their unparsed statements (printed by `python pyir_loop.py --pins`)
PINS = {
    "runner/logic.py:should_classify_result": "4d9d992ac006a14b",
    "runner/logic.py:determine_action_from_outcome": "feb2e3c421de8abd",
    "runner/logic.py:handle_abort_in_call": "e50b03b4f8b57715",
    "runner/logic.py:emit_success": "cdf7feffc4d4d603",
    "runner/logic.py:emit_max_attempts_exceeded": "17d7d3d702b987c5",
    "runner/logic.py:raise_exhausted_call": "98ce01d50c8444c6",
    "runner/logic.py:build_exhausted_outcome": "d3937f3e80d8164d",
    "runner/logic.py:raise_scheduled": "4079ec91075df163",
    "retry_helpers.py:_build_outcome": "0b2f3fd7d8caaf49",
    "retry_helpers.py:_abort_outcome": "262c7efe7f3255ce",
    "retry_helpers.py:_call_attempt_end_from_outcome": "ee7c312dd2796e0e",
    "retry_helpers.py:_resolve_sleep": "4e8408b411b1131b",
    "retry_helpers.py:_resolve_before_sleep": "48c0e43c896b25b0",
    "retry_helpers.py:_resolve_sleeper": "6310e0d7073776dd",
    "retry_helpers.py:_resolve_attempt_hooks": "080a1f18a3bef8d7",
    "retry_helpers.py:_call_attempt_start": "1a71ddaeb71963a7",
    "retry_helpers.py:_call_attempt_end": "ad54ac76b0ac6fa8",
    "state.py:_RetryState.__init__": "00607feb99a36686",
    "state.py:_RetryState.elapsed": "24d14ec31b37eec2",
    "state.py:_RetryState.record_success": "27122d2b3b615707",
    "state.py:_RetryState.handle_exception": "4ba40371aaff73c4",
    "state.py:_RetryState.handle_result": "40ca13e08c6d2b9c",
    "state.py:_build_backoff_context": "38781671ec133891",
    "base.py:_BaseRetryPolicy.__init__": "d911b89412b259e3",
    "base.py:_BaseRetryPolicy._select_strategy": "cb62595f0566a4b0",
    "base.py:_normalize_classification": "4ce35267d71b056c",
    "retry_sync.py:Retry.call": "d12485df576a91bc",
    "retry_sync.py:Retry.execute": "1a272e85334afa45",
    "retry_async.py:AsyncRetry.call": "685089d83417f418",
    "retry_async.py:AsyncRetry.execute": "e12b75f8d95762bb",
    "runner/sync_runner.py:run_sync_call": "e542b1687f52a1e4",
    "runner/sync_runner.py:run_sync_execute": "c986cae6e7619139",
    "runner/async_runner.py:run_async_call": "2f91eae5d661108f",
    "runner/async_runner.py:run_async_execute": "4fd687721fe0e280",
    "runner/timeline.py:_TimelineCollector.__init__": "63986920bb359eab",
    "runner/timeline.py:_TimelineCollector.record": "8596ce458d9f9d91",
    "runner/sync_core.py:_handle_abort_attempt_end": "6aaf6286d3ebf8e7",
    "runner/sync_core.py:_handle_success_attempt_end": "254d541d66e629c7",
    # the sync attempt-timeout wrapper (one executor per attempt: a hung attempt never delays the next; DESIGN §15)
    "runner/sync_core.py:_call_with_timeout": "923e2ce20bac3227",
    "runner/async_core.py:_handle_abort_attempt_end": "6aaf6286d3ebf8e7",
    "runner/async_core.py:_handle_success_attempt_end": "254d541d66e629c7",
}


def helper_digest(f):
    return hashlib.sha256((u(f.args) + "\n" + body_text(f)).encode()).hexdigest()[:16]


HELPERS = {"runner/logic.py": ["should_classify_result", "determine_action_from_outcome", "handle_abort_in_call", "emit_success",
                               "emit_max_attempts_exceeded", "raise_exhausted_call", "build_exhausted_outcome", "raise_scheduled"],
           "retry_helpers.py": ["_build_outcome", "_abort_outcome", "_call_attempt_end_from_outcome", "_resolve_sleep", "_resolve_before_sleep",
                                "_resolve_sleeper", "_resolve_attempt_hooks", "_call_attempt_start", "_call_attempt_end"],
           # the state operations every translated fragment (PyIRF, PyIRS, PyIRL) reads as Runner.v's emit / check_abort / ...
           # (emit, check_abort and record_failure are translated: pyir_state.py)
           "state.py": ["_RetryState.__init__", "_RetryState.elapsed", "_RetryState.record_success", "_RetryState.handle_exception",
                        "_RetryState.handle_result", "_build_backoff_context"],
           # construction of the policy object and the public entry points that resolve call-level against policy-level
           # callbacks (Runner.resolve) and start the loops
           "base.py": ["_BaseRetryPolicy.__init__", "_BaseRetryPolicy._select_strategy", "_normalize_classification"],
           "retry_sync.py": ["Retry.call", "Retry.execute"],
           "retry_async.py": ["AsyncRetry.call", "AsyncRetry.execute"],
           "runner/sync_runner.py": None, "runner/async_runner.py": None, "runner/timeline.py": ["_TimelineCollector.__init__", "_TimelineCollector.record"],
           "runner/sync_core.py": ["_handle_abort_attempt_end", "_handle_success_attempt_end", "_call_with_timeout"],
           "runner/async_core.py": ["_handle_abort_attempt_end", "_handle_success_attempt_end"]}


def functions(path):
    tree = ast.parse(open(path).read(), filename=path)
    fs = {}

    def add(name, n):
        if name in fs:
            raise TranslationError(f"{name} defined twice in {path}")
        fs[name] = n
    for n in tree.body:
        if isinstance(n, (ast.FunctionDef, ast.AsyncFunctionDef)):
            add(n.name, n)
        elif isinstance(n, ast.ClassDef):
            for k in n.body:
                if isinstance(k, (ast.FunctionDef, ast.AsyncFunctionDef)):
                    add(f"{n.name}.{k.name}", k)
    return fs


def loop_of(f, kind, is_async):
    """-> the For node, after checking the statements around it"""
    stmts = [s for s in f.body if not is_doc(s)]
    pre, post = PRE[kind], POST[kind]
    if len(stmts) != len(pre) + 1 + len(post) or [u(s) for s in stmts[:len(pre)]] != pre or [u(s) for s in stmts[len(pre) + 1:]] != post:
        raise TranslationError(f"{f.name}: the statements around the loop have changed")
    loop = stmts[len(pre)]
    if not (isinstance(loop, ast.For) and not loop.orelse and u(loop.target) == "attempt" and u(loop.iter) == "range(1, policy.max_attempts + 1)"):
        raise TranslationError(f"{f.name}: loop header")
    if f.decorator_list or isinstance(f, ast.AsyncFunctionDef) != is_async:
        raise TranslationError(f"{f.name}: kind")
    return loop


def pins(repo_src):
    base = os.path.join(repo_src, "redress", "policy")
    out = {}
    for rel, names in HELPERS.items():
        fs = functions(os.path.join(base, rel))
        for n in (sorted(fs) if names is None else names):
            if n not in fs:
                raise TranslationError(f"{rel}: {n} missing")
            out[f"{rel}:{n}"] = helper_digest(fs[n])
    return out


def translate(repo_src):
    base = os.path.join(repo_src, "redress", "policy", "runner")
    sync, asyn = functions(os.path.join(base, "sync_core.py")), functions(os.path.join(base, "async_core.py"))
    progs = {}
    for kind in ("call", "execute"):
        for name, fs, is_async in ((f"_run_sync_{kind}", sync, False), (f"_run_async_{kind}", asyn, True)):
            if name not in fs:
                raise TranslationError(f"{name} missing")
            progs[name] = block(loop_of(fs[name], kind, is_async).body, is_async, False)
        if progs[f"_run_sync_{kind}"] != progs[f"_run_async_{kind}"]:
            raise TranslationError(f"_run_async_{kind} is not _run_sync_{kind} up to await")
    now = pins(repo_src)
    for k, v in now.items():
        if PINS.get(k) != v:
            raise TranslationError(f"helper {k} has changed (its meaning is fixed in PyIRL.v): digest {v}, expected {PINS.get(k)}")
    return progs["_run_sync_call"], progs["_run_sync_execute"]


def generate(repo_src, out_path, template_path):
    call, execute = translate(repo_src)
    fmt = lambda l: "[" + ";\n   ".join(l) + "]"
    lines = ["(* generated by harness/pyir_loop.py from the current source of redress/policy/runner/{sync,async}_core.py; do not edit *)",
             "From Redress Require Import Base Window Budget Runner RunnerProofs PyIRL.", "From Coq Require Import Lia.", "",
             f"Definition call_body_ir : list ltok :=\n  {fmt(call)}.", f"Definition execute_body_ir : list ltok :=\n  {fmt(execute)}.", "",
             open(template_path).read()]
    os.makedirs(os.path.dirname(out_path), exist_ok=True)
    with open(out_path, "w") as f:
        f.write("\n".join(lines))
    return {"call": call, "execute": execute}


if __name__ == "__main__":
    import sys
    args = [a for a in sys.argv[1:] if not a.startswith("--")]
    src = args[0] if args else "/repo/src"
    if "--pins" in sys.argv:
        import json
        print(json.dumps(pins(src), indent=4))
    else:
        for part in translate(src):
            print("\n".join(part))
            print()
