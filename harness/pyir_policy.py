"""Fail-closed translator: the policy wrappers (redress/policy/policy.py: Policy; policy/async_policy.py: AsyncPolicy) -> PyIRP
token lists (PolicyIR.v): call(), execute() with _execute_with_retry / _execute_without_retry inlined, the helper methods
_handle_abort_call / _handle_exhausted_call / _handle_exception_call inlined as blocks; _call_without_retry must have exactly its
present shape.  Every keyword handed to the inner retry.call / retry.execute must be forwarded under its own name.  The helpers of
policy/execution.py and policy/policy_helpers.py whose meaning PyIRP.v fixes are pinned by digest.  Statements are compared on the
unparsed AST; anything else raises TranslationError."""
import ast
import hashlib
import os

from pyir_translate import TranslationError

CALL_KW = ["on_metric", "on_log", "operation", "abort_if", "sleep", "before_sleep", "sleeper", "on_attempt_start", "on_attempt_end"]
EXEC_KW = CALL_KW + ["capture_timeline"]


def u(n):
    return ast.unparse(n)


def is_doc(s):
    return isinstance(s, ast.Expr) and isinstance(s.value, ast.Constant) and isinstance(s.value.value, str)


def lst(items):
    return "[" + "; ".join(items) + "]"


def kw(names):
    return ", ".join(f"{n}={n}" for n in names)


HANDLERS = {"(KeyboardInterrupt, SystemExit)": "PHKbdSysExit", "asyncio.CancelledError": "PHCancelled", "AbortRetryError": "PHAbortRetry",
            "RetryExhaustedError": "PHRetryExhausted", "Exception": "PHException", "BaseException": "PHBaseException"}
HOOK_TESTS = {"self.retry is None and on_end is not None", "on_end is not None", "on_start is not None"}


class Tr:
    def __init__(self, cls, is_async):
        self.is_async = is_async
        self.aw = "await " if is_async else ""
        self.methods = {}
        for k in cls.body:
            if isinstance(k, (ast.FunctionDef, ast.AsyncFunctionDef)):
                if k.name in self.methods:
                    raise TranslationError(f"{cls.name}.{k.name} defined twice")
                if k.decorator_list:
                    raise TranslationError(f"{cls.name}.{k.name} is decorated")
                self.methods[k.name] = k
        self.cls = cls.name

    def method(self, name, params, want_async=None):
        f = self.methods.get(name)
        if f is None:
            raise TranslationError(f"{self.cls}.{name} missing")
        a = f.args
        got = [x.arg for x in a.args] + ["*"] * bool(a.kwonlyargs) + [x.arg for x in a.kwonlyargs]
        if got != params or a.vararg or a.kwarg:
            raise TranslationError(f"{self.cls}.{name}: parameters {got}")
        if want_async is not None and isinstance(f, ast.AsyncFunctionDef) != want_async:
            raise TranslationError(f"{self.cls}.{name}: sync/async kind")
        return [s for s in f.body if not is_doc(s)]

    def hook(self, s):
        return (isinstance(s, ast.If) and not s.orelse and u(s.test) in HOOK_TESTS and len(s.body) == 1 and isinstance(s.body[0], ast.Expr)
                and u(s.body[0]).startswith(("on_end(make_attempt_context(", "on_start(make_attempt_context(")))

    def block(self, stmts, exc):
        """exc: the name `exc` is bound to the handled exception"""
        out = []
        i = 0
        while i < len(stmts):
            s = stmts[i]
            t = u(s)
            nxt = u(stmts[i + 1]) if i + 1 < len(stmts) else None
            if is_doc(s):
                pass
            elif t == "ctx = ExecutionContext.create(self.circuit_breaker, on_metric, on_log, operation)":
                out.append("PCreateCtx")
            elif isinstance(s, ast.If) and not s.orelse and u(s.test) == "self.retry is None and check_abort_no_retry(ctx, abort_if)":
                out.append(f"(PIfNoRetryAbort {lst(self.block(s.body, exc))})")
            elif t == "raise AbortRetryError()":
                out.append("PRaiseAbort")
            elif t == "return build_aborted_outcome(ctx)":
                out.append("(PReturnAbortedOutcome 0)")
            elif t == "return build_aborted_outcome(ctx, attempts=1)":
                out.append("(PReturnAbortedOutcome 1)")
            elif t == "check_breaker(ctx)":
                out.append("PCheckBreaker")
            elif isinstance(s, ast.If) and not s.orelse and u(s.test) == "ctx.breaker is not None":
                out.append(f"(PIfBreaker {lst(self.block(s.body, exc))})")
            elif t == "decision = ctx.breaker.allow()" and nxt == "emit_admission_event(ctx, decision)":
                out.append("PAllow")
                i += 1
            elif isinstance(s, ast.If) and not s.orelse and u(s.test) == "not decision.allowed":
                out.append(f"(PIfNotAllowed {lst(self.block(s.body, exc))})")
            elif t == "return build_circuit_open_outcome(ctx, decision.state.value)":
                out.append("PReturnOpenOutcome")
            elif isinstance(s, ast.If) and not s.orelse and u(s.test) == "self.retry is not None":
                out.append(f"(PIfRetry {lst(self.block(s.body, exc))})")
            elif t == f"return {self.aw}self._execute_with_retry(ctx, func, {', '.join(EXEC_KW)})":
                body = self.method("_execute_with_retry", ["self", "ctx", "func"] + EXEC_KW, self.is_async)
                out.append(f"(PReturnBlock {lst(self.block(body, False))})")
            elif t == f"return {self.aw}self._execute_without_retry(ctx, func, on_attempt_start, on_attempt_end)":
                body = self.method("_execute_without_retry", ["self", "ctx", "func", "on_start", "on_end"], self.is_async)
                out.append(f"(PReturnBlock {lst(self.block(body, False))})")
            elif t in ("retry = self.retry", "assert retry is not None"):
                pass
            elif t == f"outcome = {self.aw}retry.execute(func, {kw(EXEC_KW)})":
                out.append("PInnerExecute")
            elif t == (f"if self.retry is None:\n    result = {self.aw}self._call_without_retry(ctx, func, on_attempt_start, on_attempt_end)\n"
                       f"else:\n    result = {self.aw}self.retry.call(func, {kw(CALL_KW)})"):
                body = self.method("_call_without_retry", ["self", "ctx", "func", "on_start", "on_end"], self.is_async)
                if not (len(body) == 4 and self.hook(body[0]) and u(body[1]) == f"result = {self.aw}func()" and self.hook(body[2])
                        and u(body[3]) == "return result"):
                    raise TranslationError("_call_without_retry has changed shape")
                out.append("PInnerCall")
            elif self.hook(s):
                out.append("PHook")
            elif t == f"result = {self.aw}func()":
                out.append("PInnerOp")
            elif t == "record_success(ctx)":
                out.append("PRecordSuccess")
            elif t == "record_cancel(ctx)":
                out.append("PRecordCancel")
            elif t == "record_failure(ctx, exc.last_class or ErrorClass.UNKNOWN)":
                self.need(exc, t)
                out.append("PRecordFailureLastClass")
            elif t == "klass = exc.last_class or ErrorClass.UNKNOWN" and nxt == "record_failure(ctx, klass)":
                self.need(exc, t)
                out.append("PRecordFailureLastClass")
                i += 1
            elif t == "klass = outcome.last_class or ErrorClass.UNKNOWN" and nxt == "record_failure(ctx, klass)":
                out.append("PRecordFailureOutcomeClass")
                i += 1
            elif t == "klass = classify_for_breaker(exc, self.retry)":
                self.need(exc, t)
                out.append("(PClassify true)")
            elif t == "klass = classify_for_breaker(exc, None)":
                # unguarded: if reading the exception's attributes raises, the call ends without a record (finding 7.17)
                raise TranslationError("classify_for_breaker(exc, None) outside a guard that settles the breaker when it raises")
            elif t == ("try:\n    klass = classify_for_breaker(exc, None)\nexcept BaseException:\n    record_cancel(ctx)\n    raise"):
                # the guarded classification of the entry points without retry component.  Classifiers are total functions in the
                # model (Classify.v), so the handler is dead code there: the statement reads as the classification alone; the handler
                # is exercised on the implementation by the fault sweep of C08 (exceptions whose status / code cannot be read)
                self.need(exc, t)
                out.append("(PClassify false)")
            elif t == "record_failure(ctx, klass)":
                out.append("PRecordFailureKlass")
            elif isinstance(s, ast.If) and not s.orelse and u(s.test) == "isinstance(exc, CircuitOpenError)":
                self.need(exc, t)
                out.append(f"(PIfCOE {lst(self.block(s.body, exc))})")
            elif t == "return":
                out.append("PReturnNone")
            elif t == "raise":
                out.append("PReraise")
            elif t in ("return result", "return outcome"):
                out.append("PReturnResult")
            elif t == "return build_exception_outcome_no_retry(ctx, exc, klass)":
                self.need(exc, t)
                out.append("PReturnExceptionOutcome")
            elif t == "return build_success_outcome_no_retry(ctx, result)":
                out.append("PReturnSuccessOutcome")
            elif t == "settle_if_unsettled(ctx)":
                out.append("PSettleIfUnsettled")
            elif t == "self._handle_abort_call(ctx, exc, on_attempt_end)":
                self.need(exc, t)
                out.append(f"(PBlock {lst(self.block(self.method('_handle_abort_call', ['self', 'ctx', 'exc', 'on_end'], False), True))})")
            elif t == "self._handle_exhausted_call(ctx, exc)":
                self.need(exc, t)
                out.append(f"(PBlock {lst(self.block(self.method('_handle_exhausted_call', ['self', 'ctx', 'exc'], False), True))})")
            elif t == "self._handle_exception_call(ctx, exc, on_attempt_end)":
                self.need(exc, t)
                out.append(f"(PBlock {lst(self.block(self.method('_handle_exception_call', ['self', 'ctx', 'exc', 'on_end'], False), True))})")
            elif (isinstance(s, ast.If) and len(s.orelse) == 1 and isinstance(s.orelse[0], ast.If) and s.orelse[0].orelse
                  and u(s.test) == "outcome.ok" and u(s.orelse[0].test) == "outcome.stop_reason == StopReason.ABORTED"):
                out.append(f"(POutcomeDispatch {lst(self.block(s.body, exc))} {lst(self.block(s.orelse[0].body, exc))} "
                           f"{lst(self.block(s.orelse[0].orelse, exc))})")
            elif isinstance(s, ast.Try):
                if s.orelse or not s.handlers:
                    raise TranslationError("try statement with else / without handlers")
                hs = []
                for h in s.handlers:
                    ty = u(h.type) if h.type is not None else None
                    if ty not in HANDLERS or h.name not in (None, "exc"):
                        raise TranslationError(f"except clause {ty} as {h.name}")
                    hs.append(f"PExcept {HANDLERS[ty]} {lst(self.block(h.body, h.name == 'exc'))}")
                out.append(f"(PTry {lst(self.block(s.body, exc))} {lst(hs)} {lst(self.block(s.finalbody, False))})")
            else:
                raise TranslationError(f"{self.cls}: statement {t[:110]}")
            i += 1
        return out

    @staticmethod
    def need(exc, t):
        if not exc:
            raise TranslationError(f"`exc` used where no handler binds it: {t[:60]}")


HELPERS = {"execution.py": ["ExecutionContext.create", "ExecutionContext.emit_breaker_event", "emit_admission_event", "check_breaker",
                            "record_success", "record_cancel", "record_failure", "settle_if_unsettled", "classify_for_breaker",
                            "check_abort_no_retry", "build_aborted_outcome", "build_circuit_open_outcome", "build_success_outcome_no_retry",
                            "build_exception_outcome_no_retry"],
           "policy_helpers.py": ["_emit_breaker_event", "_build_policy_outcome"]}
PINS = {
    "execution.py:ExecutionContext.create": "17a125c9aa2a1fd1",
    "execution.py:ExecutionContext.emit_breaker_event": "3d862a635ce126f3",
    "execution.py:emit_admission_event": "61453014e58acb40",
    "execution.py:check_breaker": "8d38e65b1b30c53f",
    "execution.py:record_success": "759db0a9ac5fc673",
    # records a cancel unless the call has already reported (in the model a cancel handler is never reached after a report: no
    # BaseException comes out of a hook there; the fault sweep of C09 exercises the guard)
    "execution.py:record_cancel": "b5f78a89b4f1d89b",
    "execution.py:record_failure": "4d6b3381bd5113f3",
    "execution.py:settle_if_unsettled": "ef1cd7abeb852c59",
    "execution.py:classify_for_breaker": "013e1a849747c1cc",
    "execution.py:check_abort_no_retry": "a780b46326bad785",
    "execution.py:build_aborted_outcome": "ba9a92a4f877e897",
    "execution.py:build_circuit_open_outcome": "eef796a8808a1c69",
    "execution.py:build_success_outcome_no_retry": "f95e2b42168e48b3",
    "execution.py:build_exception_outcome_no_retry": "cf4c4d9d77d0d2a0",
    "policy_helpers.py:_emit_breaker_event": "3d47ed1d8fefbb56",
    "policy_helpers.py:_build_policy_outcome": "d5bb8bb0362fedde",
}


def functions(path):
    tree = ast.parse(open(path).read(), filename=path)
    fs = {}
    for n in tree.body:
        if isinstance(n, (ast.FunctionDef, ast.AsyncFunctionDef)):
            fs[n.name] = n
        elif isinstance(n, ast.ClassDef):
            for k in n.body:
                if isinstance(k, (ast.FunctionDef, ast.AsyncFunctionDef)):
                    fs[f"{n.name}.{k.name}"] = k
    return fs


def pins(repo_src):
    base = os.path.join(repo_src, "redress", "policy")
    out = {}
    for rel, names in HELPERS.items():
        fs = functions(os.path.join(base, rel))
        for n in names:
            if n not in fs:
                raise TranslationError(f"{rel}: {n} missing")
            text = "\n".join(u(s) for s in fs[n].body if not is_doc(s))
            out[f"{rel}:{n}"] = hashlib.sha256((u(fs[n].args) + "\n" + text).encode()).hexdigest()[:16]
    return out


def translate(repo_src):
    base = os.path.join(repo_src, "redress", "policy")
    progs = {}
    for fname, cname, is_async in (("policy.py", "Policy", False), ("async_policy.py", "AsyncPolicy", True)):
        path = os.path.join(base, fname)
        tree = ast.parse(open(path).read(), filename=path)
        cls = [n for n in tree.body if isinstance(n, ast.ClassDef) and n.name == cname]
        if len(cls) != 1:
            raise TranslationError(f"{fname}: class {cname}")
        tr = Tr(cls[0], is_async)
        init = tr.method("__init__", ["self", "*", "retry", "circuit_breaker"])
        if [u(s) for s in init] != ["self.retry = retry", "self.circuit_breaker = circuit_breaker"]:
            raise TranslationError(f"{cname}.__init__ has changed")
        progs[f"{cname}.call"] = tr.block(tr.method("call", ["self", "func", "*"] + CALL_KW, is_async), False)
        progs[f"{cname}.execute"] = tr.block(tr.method("execute", ["self", "func", "*"] + EXEC_KW, is_async), False)
    now = pins(repo_src)
    for k, v in now.items():
        if PINS.get(k) != v:
            raise TranslationError(f"helper {k} has changed (its meaning is fixed in PyIRP.v): digest {v}, expected {PINS.get(k)}")
    return progs


def generate(repo_src, out_path, template_path):
    progs = translate(repo_src)
    names = {"Policy.call": "call_ir", "Policy.execute": "execute_ir", "AsyncPolicy.call": "async_call_ir", "AsyncPolicy.execute": "async_execute_ir"}
    lines = ["(* generated by harness/pyir_policy.py from the current source of redress/policy/{policy,async_policy}.py; do not edit *)",
             "From Redress Require Import Base Window Budget Breaker Runner Policy PyIRP.", "From Coq Require Import Lia.", ""]
    for k, v in names.items():
        lines.append(f"Definition {v} : list ptok :=\n  [" + ";\n   ".join(progs[k]) + "].")
    lines += ["", open(template_path).read()]
    os.makedirs(os.path.dirname(out_path), exist_ok=True)
    with open(out_path, "w") as f:
        f.write("\n".join(lines))
    return progs


if __name__ == "__main__":
    import sys
    args = [a for a in sys.argv[1:] if not a.startswith("--")]
    src = args[0] if args else "/repo/src"
    if "--pins" in sys.argv:
        import json
        print(json.dumps(pins(src), indent=4))
    else:
        if "--nopins" in sys.argv:
            PINS.update(pins(src))
        for k, v in translate(src).items():
            print(k)
            print("  " + "\n  ".join(v))
