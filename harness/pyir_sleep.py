"""Fail-closed translator: the sleep protocol of one granted retry (redress/policy/retry_helpers.py) -> PyIRS token lists
(SleepIR.v): _sync_sleep_action (and its async twin, which must be the same up to `await` and the async helper names),
_handle_sleep_decision, _finalize_attempt; the glue _sync_failure_outcome / _async_failure_outcome and the guarded hook
callers must have exactly their present shape.  Statements are compared on the unparsed AST."""
import ast
import os

from pyir_translate import TranslationError

ACT = {"SLEEP": "HSleep", "DEFER": "HDefer", "ABORT": "HAbort"}
STOPS = {"SCHEDULED": "S_SCHED", "ABORTED": "S_ABORT", "DEADLINE_EXCEEDED": "S_DEADLINE", "MAX_ATTEMPTS_GLOBAL": "S_GLOBAL"}
EVENTS = {"DEADLINE_EXCEEDED": "N_DEADLINE_EXCEEDED", "MAX_ATTEMPTS_EXCEEDED": "N_MAX_ATTEMPTS_EXCEEDED"}


def u(n):
    return ast.unparse(n)


def strip_await(text):
    return text.replace("await ", "").replace("_call_before_sleep_async(", "_call_before_sleep(").replace("_call_async_sleeper(sleep_impl, ", "sleep_impl(")


def cond(n, var):
    s = u(n)
    if s == "sleep_fn is None":
        return "CNoHandler"
    if s == "before_sleep is not None":
        return "CHasBeforeSleep"
    if s == "ctx is None":
        return "CCtxMissing"
    for name, tok in ACT.items():
        if s == f"{var} is SleepDecision.{name}":
            return f"(CActionIs {tok})"
    if s == "state.last_stop_reason is not StopReason.ABORTED":
        return "CNotAborted"
    if s == "decision.action == 'raise'":
        return "CDecisionRaise"
    if s == "state.elapsed() > state.policy.deadline":
        return "CPastDeadline"
    if s == "attempt == state.policy.max_attempts":
        return "CLastAttempt"
    raise TranslationError(f"condition {s}")


def outcome(call):
    """return _AttemptOutcome(decision=AttemptDecision.X, classification=classification, exception=exception, result=result,
    cause=cause, stop_reason=..., sleep_s=...)"""
    if not (isinstance(call, ast.Call) and u(call.func) == "_AttemptOutcome" and not call.args):
        raise TranslationError(f"return value {u(call)[:60]}")
    kw = {k.arg: u(k.value) for k in call.keywords}
    if set(kw) != {"decision", "classification", "exception", "result", "cause", "stop_reason", "sleep_s"} or \
            (kw["classification"], kw["exception"], kw["result"], kw["cause"]) != ("classification", "exception", "result", "cause"):
        raise TranslationError(f"_AttemptOutcome arguments {kw}")
    key = (kw["decision"], kw["stop_reason"], kw["sleep_s"])
    table = {("AttemptDecision.RAISE", "state.last_stop_reason", "None"): "ORaiseLast",
             ("AttemptDecision.SCHEDULED", "StopReason.SCHEDULED", "decision.sleep_s"): "OScheduled",
             ("AttemptDecision.ABORTED", "StopReason.ABORTED", "None"): "OAborted",
             ("AttemptDecision.RAISE", "StopReason.DEADLINE_EXCEEDED", "None"): "(ORaiseStop S_DEADLINE)",
             ("AttemptDecision.RAISE", "StopReason.MAX_ATTEMPTS_GLOBAL", "None"): "(ORaiseStop S_GLOBAL)",
             ("AttemptDecision.RETRY", "None", "decision.sleep_s"): "ORetry"}
    if key not in table:
        raise TranslationError(f"_AttemptOutcome {key}")
    return f"(TOutcome {table[key]})"


def block(stmts, var, is_async):
    out = []
    for s in stmts:
        if isinstance(s, ast.Expr) and isinstance(s.value, ast.Constant) and isinstance(s.value.value, str):
            continue
        text = strip_await(u(s)) if is_async else u(s)
        if isinstance(s, ast.If) and not s.orelse:
            out.append(f"(TIf {cond(s.test, var)} [{'; '.join(block(s.body, var, is_async))}])")
        elif isinstance(s, ast.Raise):
            out.append("TRaiseError")
        elif text in ("sleep_impl = sleeper or time.sleep", "sleep_impl = sleeper or asyncio.sleep"):
            # Runner.sleeper_who: the given sleeper unless None was given.  `or` would also discard a sleeper whose truth value is
            # False (a recording list subclass that is still empty): finding 7.16
            raise TranslationError(f"default sleeper chosen by truth value: {text}")
        elif text == "ctx = decision.context" or text in ("sleep_impl = time.sleep if sleeper is None else sleeper",
                                                          "sleep_impl = asyncio.sleep if sleeper is None else sleeper"):
            if is_async != ("asyncio" in text) and "sleep_impl" in text:
                raise TranslationError(f"default sleeper: {text}")
        elif text == "_call_before_sleep(before_sleep, ctx, decision.sleep_s)":
            out.append("TBeforeSleep")
        elif text == "sleep_impl(decision.sleep_s)":
            out.append("TSleep")
        elif text == "return SleepDecision.SLEEP":
            out.append("TReturnSleep")
        elif text == "action = sleep_fn(ctx, decision.sleep_s)":
            out.append("TConsult")
        elif text == "result = _handle_sleep_decision(action, state, attempt, decision)":
            out.append("TCallDecision")
        elif text in ("return result", "return action"):
            out.append("TReturnAction")
        elif text.startswith("state.last_stop_reason = StopReason.") and text.rsplit(".", 1)[1] in STOPS:
            out.append(f"(TSetStop {STOPS[text.rsplit('.', 1)[1]]})")
        elif text == ("state.emit(EventName.SCHEDULED.value, attempt, decision.sleep_s, state.last_class, state.last_exc, "
                      "stop_reason=StopReason.SCHEDULED, cause=state.last_cause)"):
            out.append("TEmitScheduled")
        elif text == "state.emit(EventName.ABORTED.value, attempt, 0.0, stop_reason=StopReason.ABORTED)":
            out.append("TEmitAborted")
        elif text.startswith("state.emit(EventName.") and text.endswith(", cause=cause)"):
            for ev, tok in EVENTS.items():
                for st, stok in STOPS.items():
                    if text == f"state.emit(EventName.{ev}.value, attempt, 0.0, state.last_class, exception, stop_reason=StopReason.{st}, cause=cause)":
                        out.append(f"(TEmitStop {tok} {stok})")
                        break
                else:
                    continue
                break
            else:
                raise TranslationError(f"emit {text}")
        elif isinstance(s, ast.Return) and s.value is not None:
            out.append(outcome(s.value))
        else:
            raise TranslationError(f"statement {text[:100]}")
    return out


GLUE = """if decision.action == 'raise':
    return _finalize_attempt(state=state, attempt=attempt, decision=decision, sleep_action=None, classification=classification, exception=exception, result=result, cause=cause)
sleep_action = {aw}_{kind}_sleep_action(state=state, attempt=attempt, decision=decision, sleep_fn=sleep_fn, before_sleep=before_sleep, sleeper=sleeper)
return _finalize_attempt(state=state, attempt=attempt, decision=decision, sleep_action=sleep_action, classification=classification, exception=exception, result=result, cause=cause)"""
HOOKS = {"_call_before_sleep": "try:\n    hook(ctx, sleep_s)\nexcept Exception:\n    pass",
         "_call_before_sleep_async": "try:\n    result = hook(ctx, sleep_s)\n    if inspect.isawaitable(result):\n        await result\nexcept Exception:\n    pass",
         "_call_async_sleeper": "result = sleeper(sleep_s)\nif inspect.isawaitable(result):\n    await result"}


def body_text(f):
    return "\n".join(u(s) for s in f.body if not (isinstance(s, ast.Expr) and isinstance(s.value, ast.Constant)))


def translate(repo_src):
    path = os.path.join(repo_src, "redress", "policy", "retry_helpers.py")
    tree = ast.parse(open(path).read(), filename=path)
    funcs = {}
    for n in tree.body:
        if isinstance(n, (ast.FunctionDef, ast.AsyncFunctionDef)):
            if n.name in funcs:
                raise TranslationError(f"{n.name} defined twice")
            funcs[n.name] = n
    need = ["_sync_sleep_action", "_async_sleep_action", "_handle_sleep_decision", "_finalize_attempt", "_sync_failure_outcome",
            "_async_failure_outcome"] + list(HOOKS)
    for x in need:
        if x not in funcs or funcs[x].decorator_list:
            raise TranslationError(f"{x} missing")
    for name, text in HOOKS.items():
        if body_text(funcs[name]) != text:
            raise TranslationError(f"{name} has changed shape: {body_text(funcs[name])[:120]}")
    for kind, aw in (("sync", ""), ("async", "await ")):
        if body_text(funcs[f"_{kind}_failure_outcome"]) != GLUE.format(aw=aw, kind=kind):
            raise TranslationError(f"_{kind}_failure_outcome has changed shape")
    if not isinstance(funcs["_async_sleep_action"], ast.AsyncFunctionDef) or not isinstance(funcs["_sync_sleep_action"], ast.FunctionDef):
        raise TranslationError("sleep actions: sync/async kinds")
    sa = block(funcs["_sync_sleep_action"].body, "result", False)
    sa_async = block(funcs["_async_sleep_action"].body, "result", True)
    if sa != sa_async:
        raise TranslationError(f"_async_sleep_action is not _sync_sleep_action up to await: {sa_async} vs {sa}")
    dec = block(funcs["_handle_sleep_decision"].body, "action", False)
    fin = block(funcs["_finalize_attempt"].body, "sleep_action", False)
    return sa, dec, fin


def generate(repo_src, out_path, template_path):
    sa, dec, fin = translate(repo_src)
    lst = lambda l: "[" + ";\n   ".join(l) + "]"
    lines = ["(* generated by harness/pyir_sleep.py from the current source of redress/policy/retry_helpers.py; do not edit *)",
             "From Redress Require Import Base Window Budget Runner PyIRS.", "From Coq Require Import Lia.", "",
             f"Definition sleep_action_ir : list stok :=\n  {lst(sa)}.", f"Definition decision_ir : list stok :=\n  {lst(dec)}.",
             f"Definition finalize_ir : list stok :=\n  {lst(fin)}.", "", open(template_path).read()]
    os.makedirs(os.path.dirname(out_path), exist_ok=True)
    with open(out_path, "w") as f:
        f.write("\n".join(lines))
    return {"sleep_action": sa, "decision": dec, "finalize": fin}


if __name__ == "__main__":
    import sys
    for part in translate(sys.argv[1] if len(sys.argv) > 1 else "/repo/src"):
        print(part)
