"""Fail-closed translator: the state operations of the retry loop (redress/policy/state.py: _RetryState.emit, check_abort,
record_failure) and the timeline hook (policy/runner/timeline.py: _resolve_timeline) -> PyIRE token lists (StateIR.v).
Statements are compared on the unparsed AST; anything else raises TranslationError."""
import ast
import os

from pyir_translate import TranslationError


def u(n):
    return ast.unparse(n)


def is_doc(s):
    return isinstance(s, ast.Expr) and isinstance(s.value, ast.Constant) and isinstance(s.value.value, str)


def body(f):
    return [s for s in f.body if not is_doc(s)]


def method(tree, cls, name, params):
    c = [n for n in tree.body if isinstance(n, ast.ClassDef) and n.name == cls]
    if len(c) != 1:
        raise TranslationError(f"class {cls}")
    fs = [f for f in c[0].body if isinstance(f, ast.FunctionDef) and f.name == name]
    if len(fs) != 1 or fs[0].decorator_list:
        raise TranslationError(f"{cls}.{name} missing (or defined twice / decorated)")
    a = fs[0].args
    got = [x.arg for x in a.args] + ["*"] * bool(a.kwonlyargs) + [x.arg for x in a.kwonlyargs]
    if got != params or a.vararg or a.kwarg:
        raise TranslationError(f"{cls}.{name}: parameters {got}")
    return fs[0]


TAGS = {"if klass is not None:\n    tags['class'] = klass.name": "TClass",
        "if exc is not None:\n    tags['err'] = type(exc).__name__": "TErr",
        "if stop_reason is not None:\n    tags['stop_reason'] = stop_reason.value": "TStop",
        "if cause is not None:\n    tags['cause'] = cause": "TCause",
        "if self.operation:\n    tags['operation'] = self.operation": "TOperation"}
GUARD = "try:\n    {call}\nexcept Exception:\n    pass"


def emit(f):
    if [u(d) for d in f.args.defaults] != ["None"] * 5:
        raise TranslationError("emit: defaults of the optional arguments")
    out = []
    for s in body(f):
        t = u(s)
        if t == "tags: dict[str, Any] = {}":
            out.append("EInitTags")
        elif t in TAGS:
            out.append(f"(ETagIf {TAGS[t]})")
        elif t == "if self.on_metric is not None:\n" + "\n".join("    " + x for x in GUARD.format(call="self.on_metric(event, attempt, sleep_s, tags)").split("\n")):
            out.append("EMetricGuarded")
        elif isinstance(s, ast.If) and not s.orelse and u(s.test) == "self.on_log is not None":
            inner = []
            for x in s.body:
                tx = u(x)
                if tx == "fields = {'attempt': attempt, 'sleep_s': sleep_s, **tags}":
                    inner.append("GFields")
                elif tx == ("if event == EventName.RETRY.value and classification is not None and (classification.retry_after_s is not None):\n"
                            "    fields['retry_after_s'] = classification.retry_after_s"):
                    inner.append("GRetryAfterIf")
                elif tx == GUARD.format(call="self.on_log(event, fields)"):
                    inner.append("GLogCall")
                else:
                    raise TranslationError(f"emit / on_log block: {tx[:100]}")
            out.append("(ELogIf [" + "; ".join(inner) + "])")
        else:
            raise TranslationError(f"emit: statement {t[:100]}")
    return out


def hook(tree):
    f = [n for n in tree.body if isinstance(n, ast.FunctionDef) and n.name == "_resolve_timeline"]
    if len(f) != 1:
        raise TranslationError("_resolve_timeline")
    b = body(f[0])
    want = ["if not capture_timeline:\n    return (None, on_metric)",
            "timeline = capture_timeline if isinstance(capture_timeline, RetryTimeline) else RetryTimeline()",
            "collector = _TimelineCollector(timeline)", None, "return (timeline, hook)"]
    if len(b) != 5 or any(w is not None and u(x) != w for x, w in zip(b, want)):
        raise TranslationError("_resolve_timeline has changed shape")
    h = b[3]
    if not (isinstance(h, ast.FunctionDef) and h.name == "hook" and [a.arg for a in h.args.args] == ["event", "attempt", "sleep_s", "tags"]):
        raise TranslationError("_resolve_timeline: hook")

    def blk(stmts):
        out = []
        for s in stmts:
            t = u(s)
            if t == "collector.record(event, attempt, sleep_s, tags)":
                out.append("HRecord")
            elif t == "on_metric(event, attempt, sleep_s, tags)":
                out.append("HCallUser")
            elif isinstance(s, ast.If) and not s.orelse and u(s.test) == "on_metric is not None":
                out.append("(HIfUser [" + "; ".join(blk(s.body)) + "])")
            else:
                raise TranslationError(f"timeline hook: {t[:100]}")
        return out
    return blk(body(h))


def check_abort(f):
    table = {"if self.abort_if is None:\n    return": "CIfNoPredicateReturn", "if not self.abort_if():\n    return": "CIfNotRequestedReturn",
             "self.last_stop_reason = StopReason.ABORTED": "CSetAborted",
             "self.emit(EventName.ABORTED.value, attempt, 0.0, stop_reason=StopReason.ABORTED)": "CEmitAborted",
             "raise AbortRetryError()": "CRaiseAbort"}
    out = []
    for s in body(f):
        t = u(s)
        if t not in table:
            raise TranslationError(f"check_abort: statement {t[:100]}")
        out.append(table[t])
    return out


FIELDS = {"self.last_class": "FLastClass", "self.last_classification": "FLastClassification", "self.last_cause": "FLastCause",
          "self.last_exc": "FLastExc", "self.last_result": "FLastResult"}
ARGS = {"FLastClass": "classification.klass", "FLastClassification": "classification", "FLastCause": "cause", "FLastExc": "exc",
        "FLastResult": "result"}


def record_failure(f):
    def blk(stmts):
        out = []
        for s in stmts:
            if isinstance(s, ast.Assign) and len(s.targets) == 1 and u(s.targets[0]) in FIELDS:
                fld = FIELDS[u(s.targets[0])]
                v = u(s.value)
                if v == ARGS[fld]:
                    out.append(f"RSet {fld} RFromArg")
                elif v == "None":
                    out.append(f"RSet {fld} RNone")
                else:
                    raise TranslationError(f"record_failure: {u(s)}")
            elif isinstance(s, ast.If) and u(s.test) == "cause == 'exception'" and s.orelse:
                out.append("RIfException [" + "; ".join(blk(s.body)) + "] [" + "; ".join(blk(s.orelse)) + "]")
            else:
                raise TranslationError(f"record_failure: statement {u(s)[:100]}")
        return out
    return blk(body(f))


def translate(repo_src):
    base = os.path.join(repo_src, "redress", "policy")
    st = ast.parse(open(os.path.join(base, "state.py")).read())
    tl = ast.parse(open(os.path.join(base, "runner", "timeline.py")).read())
    e = emit(method(st, "_RetryState", "emit", ["self", "event", "attempt", "sleep_s", "klass", "exc", "stop_reason", "cause", "classification"]))
    c = check_abort(method(st, "_RetryState", "check_abort", ["self", "attempt"]))
    r = record_failure(method(st, "_RetryState", "record_failure", ["self", "*", "classification", "cause", "exc", "result"]))
    # who passes what: handle_exception gives result=None, handle_result gives exc=None (PyIRE.arg_of relies on it)
    for name, need in (("handle_exception", ("exc=exc", "result=None", "cause='exception'")), ("handle_result", ("exc=None", "result=result", "cause='result'"))):
        src = u(method(st, "_RetryState", name, {"handle_exception": ["self", "exc", "attempt"], "handle_result": ["self", "result", "classification", "attempt"]}[name]))
        if any(x not in src for x in need):
            raise TranslationError(f"{name} no longer passes {need}")
    return {"emit": e, "hook": hook(tl), "check_abort": c, "record_failure": r}


def generate(repo_src, out_path, template_path):
    p = translate(repo_src)
    lst = lambda l: "[" + ";\n   ".join(l) + "]"
    lines = ["(* generated by harness/pyir_state.py from the current source of redress/policy/state.py and policy/runner/timeline.py; do not edit *)",
             "From Redress Require Import Base Window Budget Runner RunnerProofs PyIRE.", "From Coq Require Import Lia.", "",
             f"Definition emit_ir : list etok :=\n  {lst(p['emit'])}.", f"Definition timeline_hook_ir : list htok :=\n  {lst(p['hook'])}.",
             f"Definition check_abort_ir : list ctok :=\n  {lst(p['check_abort'])}.",
             f"Definition record_failure_ir : list rtok :=\n  {lst(p['record_failure'])}.", "", open(template_path).read()]
    os.makedirs(os.path.dirname(out_path), exist_ok=True)
    with open(out_path, "w") as f:
        f.write("\n".join(lines))
    return p


if __name__ == "__main__":
    import sys
    for k, v in translate(sys.argv[1] if len(sys.argv) > 1 else "/repo/src").items():
        print(k, v)
