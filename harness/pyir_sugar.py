"""Fail-closed translator for the delegating layers (policy/wrappers.py: RetryPolicy / AsyncRetryPolicy; policy/context.py: the four
context managers; policy/decorator.py: @retry; the constructors, from_config and context() of Retry / AsyncRetry / Policy /
AsyncPolicy): each of these only hands its parameters on.  The translator extracts, per delegation site, the forwarding table
[(name the callee receives, name handed over)] and the defaults of the constructor parameters; the generated Coq file states the
obligations (coq/templates/SugarIRProofs.v.in): every table is the identity up to the documented renames, complete for its
callee, and every layer repeats the defaults of _BaseRetryPolicy.__init__.  With that, a sugar entry point is Policy's entry point
with no breaker and the same arguments, which is what Props/C12.v assumes for them."""
import ast
import os

from pyir_translate import TranslationError

CONFIG_KW = ["classifier", "result_classifier", "strategy", "strategies", "sleep", "before_sleep", "sleeper", "budget", "attempt_timeout_s",
             "deadline_s", "max_attempts", "max_unknown_attempts", "per_class_max_attempts"]
CALL_KW = ["on_metric", "on_log", "operation", "abort_if", "sleep", "before_sleep", "sleeper", "on_attempt_start", "on_attempt_end"]
EXEC_KW = CALL_KW + ["capture_timeline"]


def u(n):
    return ast.unparse(n)


def is_doc(s):
    return isinstance(s, ast.Expr) and isinstance(s.value, ast.Constant) and isinstance(s.value.value, str)


def body(f):
    return [s for s in f.body if not is_doc(s)]


def strip(e):
    """cast(T, x) -> x ; await x -> x"""
    while True:
        if isinstance(e, ast.Await):
            e = e.value
        elif isinstance(e, ast.Call) and u(e.func) == "cast" and len(e.args) == 2 and not e.keywords:
            e = e.args[1]
        else:
            return e


def classes(path):
    tree = ast.parse(open(path).read(), filename=path)
    out = {}
    for n in tree.body:
        if isinstance(n, ast.ClassDef):
            out[n.name] = {k.name: k for k in n.body if isinstance(k, (ast.FunctionDef, ast.AsyncFunctionDef))}
            out[n.name]["__fields__"] = [k.target.id for k in n.body if isinstance(k, ast.AnnAssign) and isinstance(k.target, ast.Name)]
        elif isinstance(n, (ast.FunctionDef, ast.AsyncFunctionDef)):
            out.setdefault("__module__", {})[n.name] = n
    return out


def params(f, skip=1):
    a = f.args
    if a.vararg or a.kwarg:
        raise TranslationError(f"{f.name}: *args / **kwargs in a delegating signature")
    return [x.arg for x in a.args[skip:]], [x.arg for x in a.kwonlyargs]


def defaults(f):
    a = f.args
    return {x.arg: (u(d) if d is not None else None) for x, d in zip(a.kwonlyargs, a.kw_defaults)}


def table(call, positional=None):
    """forwarding table of a call expression: keywords, plus positional arguments matched to `positional` names"""
    if not isinstance(call, ast.Call):
        raise TranslationError(f"not a call: {u(call)[:80]}")
    t = []
    pos = list(call.args)
    if positional is not None:
        if len(pos) != len(positional):
            raise TranslationError(f"{u(call.func)}: {len(pos)} positional arguments for {positional}")
        t += [(p, u(strip(a))) for p, a in zip(positional, pos)]
    for k in call.keywords:
        if k.arg is None:
            raise TranslationError(f"{u(call.func)}: ** in a delegating call")
        t.append((k.arg, u(strip(k.value))))
    return t


def single_return(f, what):
    b = body(f)
    if len(b) != 1 or not isinstance(b[0], ast.Return) or b[0].value is None:
        raise TranslationError(f"{what}: expected a single `return <call>`")
    return strip(b[0].value)


def translate(repo_src):
    base = os.path.join(repo_src, "redress", "policy")
    sites = []        # (site name, kind, table)
    dflt = {}         # layer -> {param: default text}
    W = classes(os.path.join(base, "wrappers.py"))
    C = classes(os.path.join(base, "context.py"))
    B = classes(os.path.join(base, "base.py"))
    dflt["base"] = defaults(B["_BaseRetryPolicy"]["__init__"])
    if params(B["_BaseRetryPolicy"]["__init__"])[1] != CONFIG_KW:
        raise TranslationError("_BaseRetryPolicy.__init__: parameters")
    for mod, cname, pol, ret, ctxname, is_async in (("retry_sync.py", "Retry", None, None, "_RetryContext", False),
                                                    ("retry_async.py", "AsyncRetry", None, None, "_AsyncRetryContext", True)):
        R = classes(os.path.join(base, mod))[cname]
        init = R["__init__"]
        kws = params(init)[1]
        if sorted(kws) != sorted(CONFIG_KW + ["on_attempt_start", "on_attempt_end"]):
            raise TranslationError(f"{cname}.__init__: parameters {kws}")
        dflt[cname] = {k: v for k, v in defaults(init).items() if k in CONFIG_KW}
        b = body(init)
        if (len(b) != 3 or not isinstance(b[0], ast.Expr) or u(b[0].value.func) != "super().__init__"
                or [u(x) for x in b[1:]] != ["self.on_attempt_start = on_attempt_start", "self.on_attempt_end = on_attempt_end"]):
            raise TranslationError(f"{cname}.__init__ has changed shape")
        sites.append((f"{cname}.__init__ -> _BaseRetryPolicy.__init__", "config", table(b[0].value)))
        sites.append((f"{cname}.from_config -> {cname}", "from_config", table(single_return(R["from_config"], f"{cname}.from_config"))))
        sites.append((f"{cname}.context -> {ctxname}", "context", table(single_return(R["context"], f"{cname}.context"), ["policy"] + CALL_KW)))
    for mod, cname, ctxname in (("policy.py", "Policy", "_PolicyContext"), ("async_policy.py", "AsyncPolicy", "_AsyncPolicyContext")):
        P = classes(os.path.join(base, mod))[cname]
        sites.append((f"{cname}.context -> {ctxname}", "context", table(single_return(P["context"], f"{cname}.context"), ["policy"] + CALL_KW)))
    for cname, pol, ret in (("RetryPolicy", "Policy", "Retry"), ("AsyncRetryPolicy", "AsyncPolicy", "AsyncRetry")):
        K = W[cname]
        init = K["__init__"]
        if params(init)[1] != CONFIG_KW:
            raise TranslationError(f"{cname}.__init__: parameters")
        dflt[cname] = defaults(init)
        b = body(init)
        if len(b) != 1 or not isinstance(b[0], ast.Assign) or u(b[0].targets[0]) != "self._policy":
            raise TranslationError(f"{cname}.__init__ has changed shape")
        outer = b[0].value
        if not (isinstance(outer, ast.Call) and u(outer.func) == pol and not outer.args and [k.arg for k in outer.keywords] == ["retry"]
                and isinstance(outer.keywords[0].value, ast.Call) and u(outer.keywords[0].value.func) == ret):
            raise TranslationError(f"{cname}.__init__ does not build {pol}(retry={ret}(...)) and nothing else")
        sites.append((f"{cname}.__init__ -> {ret}", "config", table(outer.keywords[0].value)))
        sites.append((f"{cname}.from_config -> {cname}", "from_config", table(single_return(K["from_config"], f"{cname}.from_config"))))
        for m, kind, names in (("call", "call", CALL_KW), ("execute", "execute", EXEC_KW), ("context", "ctxkw", CALL_KW)):
            f = K[m]
            want = (["func"], names) if m != "context" else ([], names)
            if params(f) != want:
                raise TranslationError(f"{cname}.{m}: parameters {params(f)}")
            call = single_return(f, f"{cname}.{m}")
            if u(call.func) != f"self._policy.{m}":
                raise TranslationError(f"{cname}.{m} does not delegate to self._policy.{m}")
            sites.append((f"{cname}.{m} -> {pol}.{m}", kind, table(call, ["func"] if m != "context" else [])))
        for prop, text in (("policy", "return self._policy"),):
            if [u(s) for s in body(K[prop])] != [text]:
                raise TranslationError(f"{cname}.{prop} has changed")
    for ctxname in ("_RetryContext", "_AsyncRetryContext", "_PolicyContext", "_AsyncPolicyContext"):
        K = C[ctxname]
        if K["__fields__"] != ["policy"] + CALL_KW:
            raise TranslationError(f"{ctxname}: fields {K['__fields__']}")
        enter = K.get("__enter__") or K.get("__aenter__")
        exit_ = K.get("__exit__") or K.get("__aexit__")
        if [u(s) for s in body(enter)] != ["return self.call"] or [u(s) for s in body(exit_)] != ["return False"]:
            raise TranslationError(f"{ctxname}: __enter__ / __exit__ have changed")
        f = K["call"]
        b = body(f)
        if not (len(b) == 2 and isinstance(b[0], ast.Assign) and u(b[0].targets[0]) == "result" and u(strip(b[1].value)) == "result"):
            raise TranslationError(f"{ctxname}.call has changed shape")
        call = strip(b[0].value)
        if u(call.func) != "self.policy.call" or len(call.args) != 1 or u(call.args[0]) != "lambda: func(*args, **kwargs)":
            raise TranslationError(f"{ctxname}.call does not delegate to self.policy.call(lambda: func(*args, **kwargs), ...)")
        sites.append((f"{ctxname}.call -> policy.call", "self", [(a, v) for a, v in table(call, ["func"])[1:]]))
    # the decorator
    D = classes(os.path.join(base, "decorator.py"))["__module__"]["retry"]
    kws = params(D, skip=1)[1]
    if kws != CONFIG_KW + ["on_metric", "on_log", "operation", "abort_if", "on_attempt_start", "on_attempt_end"]:
        raise TranslationError(f"decorator.retry: parameters {kws}")
    dd = defaults(D)
    if dd.get("classifier") != "default_classifier":
        raise TranslationError("decorator.retry: default classifier")
    dflt["decorator"] = {k: v for k, v in dd.items() if k in CONFIG_KW and k != "classifier"}
    inner = [s for s in body(D) if isinstance(s, ast.FunctionDef) and s.name == "decorator"]
    if len(inner) != 1:
        raise TranslationError("decorator.retry: inner decorator")
    ib = body(inner[0])
    pre = ["op_name = operation or getattr(func, '__name__', None)", "effective_strategy: StrategyFn | None",
           "if strategy is None and strategies is None:\n    effective_strategy = decorrelated_jitter(max_s=5.0)\nelse:\n    effective_strategy = strategy"]
    if [u(s) for s in ib[:3]] != pre:
        raise TranslationError("decorator.retry: operation name / default strategy have changed")
    # which twin serves a function is decided by asyncio's test (it also knows callable objects marked as coroutine functions)
    disp = [n for n in ib if isinstance(n, ast.If)]
    if len(disp) != 2 or u(disp[1].test) != "asyncio.iscoroutinefunction(func)" or disp[1].orelse:
        raise TranslationError("decorator.retry: the sync / async dispatch has changed")
    calls = [n for n in ast.walk(inner[0]) if isinstance(n, ast.Call) and u(n.func) in ("AsyncRetryPolicy", "RetryPolicy", "async_policy.call", "policy.call")]
    if sorted(u(c.func) for c in calls) != ["AsyncRetryPolicy", "RetryPolicy", "async_policy.call", "policy.call"]:
        raise TranslationError("decorator.retry: delegation sites")
    for c in calls:
        name = u(c.func)
        if name.endswith("Policy"):
            sites.append((f"decorator -> {name}", "decorator_config", table(c)))
        else:
            if len(c.args) != 1 or u(c.args[0]) != "lambda: func(*args, **kwargs)":
                raise TranslationError("decorator.retry: the wrapped call")
            sites.append((f"decorator -> {name}", "decorator_call", table(c, ["func"])[1:]))
    # RetryConfig repeats the defaults
    cfgpath = os.path.join(repo_src, "redress", "config.py")
    tree = ast.parse(open(cfgpath).read(), filename=cfgpath)
    rc = [n for n in tree.body if isinstance(n, ast.ClassDef) and n.name == "RetryConfig"]
    if len(rc) != 1:
        raise TranslationError("config.py: RetryConfig")
    dflt["RetryConfig"] = {k.target.id: (u(k.value) if k.value is not None else None) for k in rc[0].body if isinstance(k, ast.AnnAssign)}
    return sites, dflt


def q(s):
    return '"' + s.replace('"', "'") + '"'


def generate(repo_src, out_path, template_path):
    sites, dflt = translate(repo_src)
    lines = ["(* generated by harness/pyir_sugar.py from the current source of redress/policy/{wrappers,context,decorator,retry_sync,retry_async,"
             "policy,async_policy,base}.py and redress/config.py; do not edit *)",
             "From Coq Require Import String List Bool.", "Import ListNotations.", "Open Scope string_scope.", "",
             "Inductive skind := KConfig | KFromConfig | KContext | KCall | KExecute | KCtxKw | KSelf | KDecoratorConfig | KDecoratorCall.", ""]
    kinds = {"config": "KConfig", "from_config": "KFromConfig", "context": "KContext", "call": "KCall", "execute": "KExecute", "ctxkw": "KCtxKw",
             "self": "KSelf", "decorator_config": "KDecoratorConfig", "decorator_call": "KDecoratorCall"}
    rows = []
    for name, kind, t in sites:
        rows.append(f"  ({q(name)}, {kinds[kind]}, [" + "; ".join(f"({q(a)}, {q(v)})" for a, v in t) + "])")
    lines.append("Definition sites : list (string * skind * list (string * string)) :=\n  [\n" + ";\n".join(rows) + "\n  ].")
    drows = []
    for layer, d in dflt.items():
        drows.append(f"  ({q(layer)}, [" + "; ".join(f"({q(k)}, {q(v if v is not None else '<required>')})" for k, v in d.items()) + "])")
    lines.append("Definition layer_defaults : list (string * list (string * string)) :=\n  [\n" + ";\n".join(drows) + "\n  ].")
    lines += ["", open(template_path).read()]
    os.makedirs(os.path.dirname(out_path), exist_ok=True)
    with open(out_path, "w") as f:
        f.write("\n".join(lines))
    return {"sites": [s[0] for s in sites], "layers": sorted(dflt)}


if __name__ == "__main__":
    import sys
    sites, dflt = translate(sys.argv[1] if len(sys.argv) > 1 else "/repo/src")
    for s in sites:
        print(s)
    for k, v in dflt.items():
        print(k, v)
