"""Fail-closed translator: the methods of redress/budget.py's Budget -> PyIR terms (coq/gen/BudgetIR.v).
Every Python AST shape is mapped to one PyIR constructor; anything else raises TranslationError."""
import ast
import os


class TranslationError(Exception):
    pass


def q(s):
    return '"' + s + '"'


def is_self_attr(n, name=None):
    return (isinstance(n, ast.Attribute) and isinstance(n.value, ast.Name) and n.value.id == "self"
            and (name is None or n.attr == name))


def expr(n):
    if isinstance(n, ast.Constant):
        if n.value is True or n.value is False:
            return f"(EBool {'true' if n.value else 'false'})"
        if n.value is None:
            return "ENone"
        if isinstance(n.value, int):
            return f"(EInt {n.value})" if n.value >= 0 else f"(EInt ({n.value}))"
        raise TranslationError(f"constant {n.value!r}")
    if isinstance(n, ast.Name):
        return f"(EVar {q(n.id)})"
    if is_self_attr(n):
        return f"(EAttr {q(n.attr)})"
    if isinstance(n, ast.Call):
        f = n.func
        if (isinstance(f, ast.Attribute) and isinstance(f.value, ast.Name) and f.value.id == "time" and f.attr == "monotonic"
                and not n.args and not n.keywords):
            return "EClock"
        if isinstance(f, ast.Name) and f.id == "deque" and not n.args and not n.keywords:
            return "EDeque"
        if (isinstance(f, ast.Attribute) and isinstance(f.value, ast.Name) and f.value.id == "threading" and f.attr == "Lock"
                and not n.args and not n.keywords):
            return "ELock"
        if isinstance(f, ast.Name) and f.id == "len" and len(n.args) == 1 and not n.keywords:
            return f"(ELen {expr(n.args[0])})"
        if isinstance(f, ast.Name) and f.id == "max" and len(n.args) == 2 and not n.keywords:
            return f"(EMax {expr(n.args[0])} {expr(n.args[1])})"
        raise TranslationError(f"call {ast.dump(n)[:80]}")
    if isinstance(n, ast.Subscript) and isinstance(n.slice, ast.Constant) and n.slice.value == 0:
        return f"(EHead {expr(n.value)})"
    if isinstance(n, ast.BinOp) and isinstance(n.op, (ast.Add, ast.Sub)):
        return f"(EBin {'OAdd' if isinstance(n.op, ast.Add) else 'OSub'} {expr(n.left)} {expr(n.right)})"
    if isinstance(n, ast.Compare) and len(n.ops) == 1:
        op = {ast.LtE: "CLe", ast.Lt: "CLt", ast.Gt: "CGt", ast.GtE: "CGe"}.get(type(n.ops[0]))
        if op is None:
            raise TranslationError(f"comparison {type(n.ops[0]).__name__}")
        return f"(ECmp {op} {expr(n.left)} {expr(n.comparators[0])})"
    if isinstance(n, ast.BoolOp) and isinstance(n.op, ast.And) and len(n.values) == 2:
        return f"(EAnd {expr(n.values[0])} {expr(n.values[1])})"
    raise TranslationError(f"expression {ast.dump(n)[:80]}")


def seq(stmts):
    stmts = [s for s in stmts if s is not None]
    if not stmts:
        return "SSkip"
    out = stmts[-1]
    for s in reversed(stmts[:-1]):
        out = f"(SSeq {s} {out})"
    return out


def stmt(n):
    if isinstance(n, ast.Expr) and isinstance(n.value, ast.Constant) and isinstance(n.value.value, str):
        return None
    if isinstance(n, ast.Assign) and len(n.targets) == 1 and isinstance(n.targets[0], ast.Name):
        return f"(SAssign {q(n.targets[0].id)} {expr(n.value)})"
    if isinstance(n, ast.Assign) and len(n.targets) == 1 and is_self_attr(n.targets[0]):
        return f"(SSetAttr {q(n.targets[0].attr)} {expr(n.value)})"
    if isinstance(n, ast.AnnAssign) and is_self_attr(n.target) and n.value is not None and n.simple == 0:
        return f"(SSetAttr {q(n.target.attr)} {expr(n.value)})"
    if isinstance(n, ast.If):
        return f"(SIf {expr(n.test)} {seq([stmt(x) for x in n.body])} {seq([stmt(x) for x in n.orelse])})"
    if isinstance(n, ast.While) and not n.orelse:
        return f"(SWhile {expr(n.test)} {seq([stmt(x) for x in n.body])})"
    if (isinstance(n, ast.For) and not n.orelse and isinstance(n.target, ast.Name) and isinstance(n.iter, ast.Call)
            and isinstance(n.iter.func, ast.Name) and n.iter.func.id == "range" and len(n.iter.args) == 1):
        used = any(isinstance(x, ast.Name) and x.id == n.target.id for b in n.body for x in ast.walk(b))
        if used:
            raise TranslationError("loop variable used in the body")
        return f"(SForRange {expr(n.iter.args[0])} {seq([stmt(x) for x in n.body])})"
    if isinstance(n, ast.With) and len(n.items) == 1 and is_self_attr(n.items[0].context_expr, "_lock") and n.items[0].optional_vars is None:
        return f"(SWithLock {seq([stmt(x) for x in n.body])})"
    if isinstance(n, ast.Return):
        return f"(SReturn {expr(n.value) if n.value is not None else 'ENone'})"
    if isinstance(n, ast.Raise):
        return "SRaise"
    if isinstance(n, ast.Expr) and isinstance(n.value, ast.Call):
        c = n.value
        f = c.func
        if isinstance(f, ast.Attribute) and is_self_attr(f.value) and not c.keywords:
            if f.attr == "append" and len(c.args) == 1:
                return f"(SAppend {q(f.value.attr)} {expr(c.args[0])})"
            if f.attr == "popleft" and not c.args:
                return f"(SPopLeft {q(f.value.attr)})"
        if is_self_attr(f) and not c.keywords:
            return f"(SCall {q(f.attr)} [{'; '.join(expr(a) for a in c.args)}])"
    raise TranslationError(f"statement {ast.dump(n)[:100]}")


class _Rename(ast.NodeTransformer):
    def __init__(self, mapping):
        self.mapping = mapping

    def visit_Name(self, n):
        if n.id in self.mapping:
            return ast.copy_location(ast.Name(id=self.mapping[n.id], ctx=n.ctx), n)
        return n


def canonical_locals(f, params, private):
    """Local variables are renamed to l0, l1, ... in order of first assignment, and the parameters of private helpers
    (only ever passed positionally: keyword arguments are rejected) to p0, p1, ...: renaming them is not a behavioural change,
    and the obligations should not depend on it.  Parameters of public methods keep their names."""
    mapping = {}
    if private:
        for i, pn in enumerate(params):
            mapping[pn] = f"p{i}"
    k = 0
    for n in ast.walk(f):
        if isinstance(n, ast.Name) and isinstance(n.ctx, ast.Store) and n.id not in mapping and n.id not in params:
            mapping[n.id] = f"l{k}"
            k += 1
    for stmt_ in f.body:
        _Rename(mapping).visit(stmt_)
    return [mapping.get(pn, pn) for pn in params]


def harvest_constants(path):
    """integer literals of the source (used to aim the search for a failing input when the tie breaks)"""
    out = set()
    for n in ast.walk(ast.parse(open(path).read())):
        if isinstance(n, ast.Constant) and isinstance(n.value, int) and not isinstance(n.value, bool):
            out.add(n.value)
    return sorted(out)


REQUIRED_IMPORTS = {"import threading", "import time", "from collections import deque"}


def translate(path, clsname="Budget"):
    """-> {method: (params, defaults, body)}; params exclude self; defaults maps a parameter to its integer default."""
    tree = ast.parse(open(path).read(), filename=path)
    imports = set()
    for n in tree.body:
        if isinstance(n, (ast.Import, ast.ImportFrom)):
            imports.add(ast.unparse(n))
        elif not isinstance(n, ast.ClassDef):
            # anything else at module level could rebind time / deque / threading
            raise TranslationError(f"module-level {type(n).__name__}")
    if imports != REQUIRED_IMPORTS:
        raise TranslationError(f"imports {sorted(imports)}")
    classes = [n for n in tree.body if isinstance(n, ast.ClassDef)]
    if len(classes) != 1 or classes[0].name != clsname or classes[0].bases or classes[0].decorator_list or classes[0].keywords:
        raise TranslationError("expected exactly one plain class " + clsname)
    out = {}
    for f in classes[0].body:
        if isinstance(f, ast.Expr) and isinstance(f.value, ast.Constant) and isinstance(f.value.value, str):
            continue
        if not isinstance(f, ast.FunctionDef):
            raise TranslationError(f"class member {type(f).__name__}")
        a = f.args
        if f.decorator_list or a.vararg or a.kwarg or a.posonlyargs or not a.args or a.args[0].arg != "self":
            raise TranslationError(f"{f.name}: unsupported signature")
        if f.name == "__init__":
            if len(a.args) != 1 or any(d is not None for d in a.kw_defaults):
                raise TranslationError("__init__: expected keyword-only parameters without defaults")
            params, defaults = [x.arg for x in a.kwonlyargs], {}
        else:
            if a.kwonlyargs:
                raise TranslationError(f"{f.name}: keyword-only parameters")
            params = [x.arg for x in a.args[1:]]
            defaults = {}
            for name, d in zip(reversed(params), reversed(a.defaults)):
                if not (isinstance(d, ast.Constant) and isinstance(d.value, int) and not isinstance(d.value, bool)):
                    raise TranslationError(f"{f.name}: default of {name}")
                defaults[name] = d.value
        if f.name in out:
            raise TranslationError(f"{f.name} defined twice")
        for n in ast.walk(f):
            if isinstance(n, (ast.Global, ast.Nonlocal, ast.Lambda, ast.FunctionDef)) and n is not f:
                raise TranslationError(f"{f.name}: {type(n).__name__}")
        private = f.name.startswith("_") and f.name != "__init__"
        old = list(params)
        params = canonical_locals(f, params, private)
        defaults = {params[old.index(k)]: v for k, v in defaults.items()}
        out[f.name] = (params, defaults, seq([stmt(x) for x in f.body]))
    return out


def generate(repo_src, out_path, template_path):
    meths = translate(os.path.join(repo_src, "redress", "budget.py"))
    if sorted(meths) != ["__init__", "_prune", "consume", "remaining"]:
        raise TranslationError(f"methods {sorted(meths)}")
    lines = ["(* generated by harness/pyir_translate.py from the current source of redress/budget.py; do not edit *)",
             "From Redress Require Import Base Window Budget BudgetProofs PyIR.",
             "From Coq Require Import String Lia.", "Open Scope string_scope.", ""]
    for name, (params, defaults, body) in meths.items():
        ident = name.strip("_")
        lines.append(f"Definition {ident}_params : list string := [{'; '.join(q(p) for p in params)}].")
        lines.append(f"Definition {ident}_defaults : list (string * Z) := [{'; '.join(f'({q(k)}, {v}%Z)' for k, v in defaults.items())}].")
        lines.append(f"Definition {ident}_ir : stmt :=\n  {body}.")
    helpers = [n for n in meths if n.startswith("_") and n != "__init__"]
    lines.append("Definition budget_helpers : helpers := [" + "; ".join(
        f"({q(n)}, ({n.strip('_')}_params, {n.strip('_')}_ir))" for n in helpers) + "].")
    lines.append("")
    lines.append(open(template_path).read())
    os.makedirs(os.path.dirname(out_path), exist_ok=True)
    with open(out_path, "w") as f:
        f.write("\n".join(lines))
    return meths


if __name__ == "__main__":
    import sys
    m = generate(sys.argv[1] if len(sys.argv) > 1 else "/repo/src", sys.argv[2] if len(sys.argv) > 2 else "/verif/coq/gen/BudgetIR.v",
                 "/verif/coq/templates/BudgetIRProofs.v.in")
    for k, v in m.items():
        print(k, v)
