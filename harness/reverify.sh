#!/bin/bash
# re-verify every seeded change against the current /repo HEAD: demo passes pristine, patch applies, tests pass, demo fails
cd /verif
for d in seeded/*/; do
  n=$(basename $d)
  [ -f $d/patch.diff ] || continue
  wt=/tmp/wt/rv-$n
  git -C /repo worktree remove --force $wt >/dev/null 2>&1
  git -C /repo worktree add --detach $wt HEAD >/dev/null 2>&1
  export PYTHONPATH=$wt/src PYTHONHASHSEED=0
  (cd $wt && timeout 120 /venv/bin/python /verif/$d/demo.py >/dev/null 2>&1); p=$?
  (cd $wt && git apply /verif/$d/patch.diff >/dev/null 2>&1); a=$?
  if [ $a -eq 0 ]; then
    (cd $wt && timeout 600 /venv/bin/python -m pytest -q -p no:cacheprovider --no-cov -x tests >/dev/null 2>&1); t=$?
    (cd $wt && timeout 120 /venv/bin/python /verif/$d/demo.py >/dev/null 2>&1); c=$?
  else t=-; c=-; fi
  echo "$n pristine=$p apply=$a tests=$t changed=$c"
  git -C /repo worktree remove --force $wt >/dev/null 2>&1
done
