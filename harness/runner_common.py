"""Shared by the retry-loop properties (C01-C05, C11-C16, C10 policy level, C12):
script generator, Gallina printers for scripts / traces / deliveries, the correspondence pipeline."""
import json
import os

import common
from common import G

KLASSES = ["AUTH", "PERMISSION", "PERMANENT", "CONCURRENCY", "RATE_LIMIT", "SERVER_ERROR", "TRANSIENT", "UNKNOWN"]
RETRYABLE = ["CONCURRENCY", "RATE_LIMIT", "SERVER_ERROR", "TRANSIENT", "UNKNOWN"]
STOP = {
    "MAX_ATTEMPTS_GLOBAL": "S_GLOBAL", "MAX_ATTEMPTS_PER_CLASS": "S_PERCLASS", "DEADLINE_EXCEEDED": "S_DEADLINE",
    "MAX_UNKNOWN_ATTEMPTS": "S_UNKNOWN", "NON_RETRYABLE_CLASS": "S_NONRETRY", "NO_STRATEGY": "S_NOSTRAT",
    "BUDGET_EXHAUSTED": "S_BUDGET", "SCHEDULED": "S_SCHED", "ABORTED": "S_ABORT",
}
EVN = {
    "success": "N_SUCCESS", "retry": "N_RETRY", "permanent_fail": "N_PERMANENT_FAIL",
    "deadline_exceeded": "N_DEADLINE_EXCEEDED", "max_attempts_exceeded": "N_MAX_ATTEMPTS_EXCEEDED",
    "max_unknown_attempts_exceeded": "N_MAX_UNKNOWN_ATTEMPTS_EXCEEDED",
    "no_strategy_configured": "N_NO_STRATEGY_CONFIGURED", "budget_exhausted": "N_BUDGET_EXHAUSTED",
    "scheduled": "N_SCHEDULED", "aborted": "N_ABORTED", "circuit_opened": "N_CIRCUIT_OPENED",
    "circuit_half_open": "N_CIRCUIT_HALF_OPEN", "circuit_closed": "N_CIRCUIT_CLOSED",
    "circuit_rejected": "N_CIRCUIT_REJECTED",
}
CK = {"cancelled": "KCancelled", "keyboard": "KKeyboard", "sysexit": "KSysExit", "genexit": "KGenExit"}
WHO = {"policy": "WPolicy", "call": "WCall", "default": "WDefault"}
HD = {"S": "HSleep", "D": "HDefer", "A": "HAbort"}
BAD = -987654321  # sentinel: a value the model can never produce
FLAGS = ["has_rc", "has_abort", "handler_p", "handler_c", "bs_p", "bs_c", "sleeper_p", "sleeper_c",
         "has_metric", "has_log", "has_opname", "capture_tl"]
POLICY_FIELDS = ["max_attempts", "deadline", "max_unknown", "per_class", "strat_tab", "strat_default", "has_rc",
                 "handler_p", "bs_p", "sleeper_p"]
ENTRIES_CALL_ONLY = ["retry.ctx", "policy.ctx", "retrypolicy.ctx", "decorator"]
# every way of reaching the retry loop without a breaker: the constructors, the context managers, RetryPolicy (sugar over Policy), the
# decorator, RetryConfig + from_config, and a RetryPolicy configured by attribute assignment.  (The sugar entry points classify the
# final exception once more for the absent breaker: not for projections that contain classifier calls.)
ENTRIES_NO_BREAKER = ["retry", "retry", "retry", "retry.ctx", "retrypolicy", "retrypolicy.ctx", "decorator", "retrycfg", "retrypolicycfg",
                      "retrypolicyattr"]
ENTRIES_NO_BREAKER_EXECUTE = ["retry", "retry", "retrypolicy", "retrycfg", "retrypolicycfg", "retrypolicyattr"]


# ------------------------------------------------------------------------------------------------
# generator
# ------------------------------------------------------------------------------------------------
def gen_policy(rng, o):
    p = {}
    p["max_attempts"] = rng.choice(o.get("max_attempts", [-1, 0] + [1, 2, 2, 3, 3, 3, 4, 4, 5, 6, 8] * 3))
    tight = rng.random() < o.get("p_tight_deadline", 0.35)
    p["deadline"] = rng.choice([0, 1, 3, 5, 8, 13, 20]) if tight else rng.choice([10**6, 64 * 60, 2**33])
    p["max_unknown"] = rng.choice([None, 0, 1, 2, 2, 3])
    p["per_class"] = {}
    if rng.random() < o.get("p_per_class", 0.45):
        for k in rng.sample(KLASSES, rng.randint(1, 3)):
            p["per_class"][k] = rng.choice([0, 1, 1, 2, 3])
    # strategies: default present or not, some per-class entries; each context-style or legacy
    p["strat_default"] = rng.choice([False, False, False, True, True, None]) if rng.random() < 0.9 else None
    p["strat_tab"] = {}
    if rng.random() < 0.5 or p["strat_default"] is None:
        for k in rng.sample(KLASSES, rng.randint(1, 4)):
            p["strat_tab"][k] = rng.random() < 0.35
    if p["strat_default"] is None and rng.random() < 0.15:
        p["strat_tab"] = {}          # strategies={} and no default: legal, and no class has a strategy
    p["has_rc"] = rng.random() < o.get("p_rc", 0.5)
    p["strat_shape"] = rng.randrange(12)      # which signature the scripted strategies are given (driver only)
    p["handler_p"] = rng.random() < o.get("p_handler", 0.25)
    p["bs_p"] = rng.random() < o.get("p_bs", 0.3)
    p["sleeper_p"] = rng.random() < 0.4
    # attempt_timeout_s: 160 ticks (2.5 s) is longer than every scripted duration, so it fires only for operations scripted to hang
    p["att_timeout"] = 160 if rng.random() < o.get("p_att_timeout", 0.15) else None
    if p["att_timeout"] is not None and rng.random() < 0.2:
        # "no limit in practice": 1e10 s, more than the platform can wait for in one go (threading.TIMEOUT_MAX); never fires
        p["att_timeout"] = 64 * 10**10
    return p


def gen_env(rng, p, c, o):
    n_ops = max(1, min(9, (p["max_attempts"] if p["max_attempts"] > 0 else 1) + rng.randint(0, 1)))
    pool = rng.sample(o.get("klass_pool") or KLASSES, min(len(o.get("klass_pool") or KLASSES), rng.randint(1, 3)))
    if o.get("klass_pool"):
        pass
    elif rng.random() < 0.8:
        pool = [k for k in pool if k in RETRYABLE] or [rng.choice(RETRYABLE)]
    dl = p["deadline"]
    durs = [0, 0, 1, 2] + ([dl - 1, dl, dl + 1, max(0, dl // 2)] if dl < 1000 else [5, 64])
    durs = [d for d in durs if d >= 0]
    ops = []
    # cause bias: some scripts fail only through results, some only through exceptions
    bias = rng.choice(["mixed", "mixed", "res", "exc"]) if p["has_rc"] else "mixed"
    for i in range(n_ops):
        r = rng.random()
        if bias == "res":
            r = 0.5 + r * 0.5 if r < 0.5 else r        # exception failures become result failures
        elif bias == "exc" and 0.5 <= r < 0.75:
            r = r - 0.5
        dur = rng.choice(durs)
        klass = rng.choice(pool) if rng.random() < 0.85 else rng.choice(KLASSES)
        ra = rng.choice([None, None, None, None, 0, 2, 7, 10**7, -1, -320, "nan", "inf", "-inf"])
        last = i == n_ops - 1
        if r < o.get("p_fail_exc", 0.5):
            ops.append(["R", dur, klass, ra])
        elif r < o.get("p_fail_exc", 0.5) + (0.25 if p["has_rc"] else 0.0):
            ops.append(["V", dur, klass, ra])
        elif r < 0.9 - o.get("p_special", 0.1) or not last and rng.random() < 0.5:
            ops.append(["V", dur, None, None] if (last or rng.random() < 0.3) else ["R", dur, klass, ra])
        else:
            kind = rng.choice(o.get("specials", ["A", "C", "C", "N"]))
            if kind == "C":
                ops.append(["C", dur, rng.choice(o.get("cancel_kinds", list(CK))), None])
            else:
                ops.append([kind, dur, None, None])
    if p.get("att_timeout") is not None:
        # the wrapper must be transparent: the operation's own TimeoutError ("te") surfaces unchanged; an operation that
        # hangs is an exception failure after exactly att_timeout ticks (sync: a real 1.5 s wait, so kept rare)
        for op in ops:
            if op[0] == "R":
                r = rng.random()
                if r < 0.35:
                    op.append("te")
                elif p["att_timeout"] < 10**6 and r < 0.35 + (0.25 if o.get("_is_async") else 0.03):
                    op[1] = p["att_timeout"]
                    op.append("hang")
    svals = [0, 0, 1, 1, 2, 3, 5, 8, dl, dl + 3, 2**20, -1, -5, "nan", "inf", "-inf", "huge", "-huge", "hugeint", "-hugeint"]
    env = {
        "ops": ops,
        "abort": [], "strat": [rng.choice(svals) for _ in range(n_ops)],
        "handler": [], "over": [rng.choice([0, 0, 0, 1, 2, dl if dl < 1000 else 3]) for _ in range(n_ops)],
        "sleep_cancel": [], "metric_raises": [], "log_raises": [], "bs_raises": [], "bs_cancel": [],
    }
    if c["has_abort"]:
        n_polls = 3 * n_ops + 2
        if rng.random() < o.get("p_abort_true", 0.5):
            k = rng.randrange(n_polls)
            env["abort"] = [False] * k + [True] + [rng.random() < 0.5 for _ in range(3)]
        else:
            env["abort"] = []
    if p["handler_p"] or c["handler_c"]:
        env["handler"] = [rng.choice(o.get("handler_choices", ["S", "S", "S", "D", "A"])) for _ in range(n_ops)]
    if rng.random() < o.get("p_sleep_cancel", 0.04):
        env["sleep_cancel"] = [None] * rng.randrange(n_ops) + [rng.choice(o.get("cancel_kinds", list(CK)))]
    if (p["bs_p"] or c["bs_c"]) and rng.random() < o.get("p_bs_cancel", 0.03):
        env["bs_cancel"] = [None] * rng.randrange(n_ops) + [rng.choice(o.get("cancel_kinds", list(CK)))]
    pf = o.get("p_hook_fault", 0.15)
    for key in ("metric_raises", "log_raises", "bs_raises"):
        if rng.random() < pf:
            if rng.random() < 0.4:
                env[key] = [True] * 40
            else:
                env[key] = [False] * rng.randrange(0, 6) + [True]
    return env


def gen_call(rng, pidx, p, o, entries=None):
    c = dict((k, p[k]) for k in POLICY_FIELDS)
    c["att_timeout"] = p.get("att_timeout")
    c["has_abort"] = rng.random() < o.get("p_abort", 0.4)
    c["handler_c"] = rng.random() < o.get("p_handler", 0.25)
    c["bs_c"] = rng.random() < o.get("p_bs", 0.3)
    c["sleeper_c"] = rng.random() < 0.5
    c["has_metric"] = rng.random() < o.get("p_metric", 0.7)
    c["has_log"] = rng.random() < o.get("p_log", 0.45)
    c["has_opname"] = rng.random() < 0.4
    mode = rng.choice(["call", "execute"]) if o.get("mode") is None else o["mode"]
    c["capture_tl"] = mode == "execute" and rng.random() < o.get("p_timeline", 0.4)
    # Retry / AsyncRetry directly, or through their context manager (which binds the per-call options once)
    entry = rng.choice(entries or o.get("entries", ["retry", "retry", "retry", "retry.ctx"]))
    is_async = rng.random() < o.get("p_async", 0.5)
    if entry in ENTRIES_CALL_ONLY:
        mode = "call"
        c["capture_tl"] = False
    if entry == "decorator":
        c["handler_c"] = c["bs_c"] = c["sleeper_c"] = False
        c["has_opname"] = True   # operation defaults to the function's name ("opname")
    variant = {}
    if is_async:
        variant = {"throw": rng.random() < 0.5, "suspend_op": rng.random() < 0.5, "suspend_bs": rng.random() < 0.5,
                   "suspend_sleep": rng.random() < 0.5, "sync_hooks": rng.random() < 0.3, "awaitable_obj": rng.random() < 0.3}
    variant["bare"] = rng.randrange(2)
    variant["hook_shape"] = rng.randrange(3)
    variant["falsy_hooks"] = rng.random() < 0.3
    variant["cancel_bridge"] = rng.random() < 0.3      # "cancelled" is raised as a CancelledError subclass that is also an Exception
    variant["tl_object"] = rng.random() < 0.3
    variant["falsy_objs"] = rng.random() < 0.25     # falsy exception / result objects (len() == 0)
    variant["chained"] = rng.random() < 0.25       # failures carry __cause__ / __context__ (a CircuitOpenError, an AbortRetryError, ...)
    r = rng.random()
    variant["same_exc"] = r < 0.15                  # every failing attempt raises the same exception object
    variant["exc_group"] = 0.15 <= r < 0.27         # failures arrive as a one-member ExceptionGroup
    env = gen_env(rng, p, c, dict(o, _is_async=is_async))
    if is_async and (env["bs_cancel"] or env["sleep_cancel"]) and rng.random() < 0.7:
        variant.update(throw=True, suspend_bs=True, suspend_sleep=True, sync_hooks=False)
    return {"policy": pidx, "entry": entry, "async": is_async, "mode": mode, "cfg": c, "env": env,
            "gap": rng.choice([0, 0, 1, 5, 64]), "variant": variant}


def cap_mix_sequence(rng, o):
    """one call whose failures interleave a capped class K with another retryable class J: the caps count the retries
    granted after K failures over the whole call, not consecutive ones"""
    p = gen_policy(rng, o)
    k = rng.choice(RETRYABLE)
    j = rng.choice([x for x in RETRYABLE if x != k])
    cap = rng.choice([0, 1, 1, 2])
    p.update(max_attempts=rng.choice([6, 8, 9]), deadline=2**33, per_class={}, max_unknown=None, strat_default=False, strat_tab={})
    if rng.random() < 0.3:
        k = "UNKNOWN"
        j = rng.choice([x for x in RETRYABLE if x != k])
    if k == "UNKNOWN" and rng.random() < 0.5:
        # both caps on UNKNOWN at once: each must hold whichever is the smaller
        lo, hi = cap, cap + rng.choice([1, 2, 3])
        if rng.random() < 0.5:
            p["max_unknown"], p["per_class"] = lo, {k: hi}
        else:
            p["max_unknown"], p["per_class"] = hi, {k: lo}
    elif k == "UNKNOWN" and rng.random() < 0.7:
        p["max_unknown"] = cap
    else:
        p["per_class"] = {k: cap}
    if rng.random() < 0.3:
        p["per_class"][j] = rng.choice([2, 3])
    call = gen_call(rng, 0, p, dict(o, p_abort=0.0, p_handler=0.0))
    n = p["max_attempts"] + 1
    pattern = rng.choice([[k, j, k, k, j, k, k, k, k], [j, k, j, k, j, k, k, k, k], [k, j, j, k, j, k, j, k, k], [k, k, j, k, k, k, k, k, k]])
    ops = []
    for i in range(n):
        kl = pattern[i % len(pattern)]
        kind = "V" if (p["has_rc"] and rng.random() < 0.4) else "R"
        ops.append([kind, rng.choice([0, 1]), kl, None])
    call["env"]["ops"] = ops
    call["env"]["strat"] = [rng.choice([0, 1, 2]) for _ in range(n)]
    call["env"]["over"] = [0] * n
    call["env"]["handler"] = []
    call["env"]["sleep_cancel"] = []
    call["env"]["bs_cancel"] = []
    call["cfg"].update(handler_c=False, has_abort=False)
    call["cfg"]["handler_p"] = p["handler_p"] = False
    return {"t0": 0, "budget": None, "breaker": None, "policies": [p], "calls": [call]}


def hold_hung_sequences(rng, o, modes=("call", "execute")):
    """sync calls under attempt_timeout_s whose first attempt hangs and STAYS hung while the later attempts run (the worker
    thread is released only when the call is over): every attempt has its own worker, so the second attempt starts at once and
    its result is the call's.  (One real wait of 2.5 s per script.)"""
    out = []
    for mode in modes:
        p = gen_policy(rng, dict(o, p_att_timeout=1.0, p_tight_deadline=0.0, p_handler=0.0))
        p.update(max_attempts=3, max_unknown=None, per_class={}, strat_default=False, strat_tab={}, handler_p=False, att_timeout=160)
        call = gen_call(rng, 0, p, dict(o, p_abort=0.0, p_handler=0.0, p_async=0.0, mode=mode), entries=["retry"])
        ok_second = rng.random() < 0.5
        call["env"]["ops"] = [["R", p["att_timeout"], "TRANSIENT", None, "hang"],
                              ["V", 1, None, None] if ok_second else ["R", 1, "TRANSIENT", None], ["V", 0, None, None]]
        call["env"].update(strat=[1, 2, 1], over=[0, 0, 0], handler=[], sleep_cancel=[], bs_cancel=[], abort=[])
        call["cfg"].update(handler_c=False, has_abort=False)
        call["variant"]["hold_hung"] = True
        call["variant"]["same_exc"] = call["variant"]["exc_group"] = False
        out.append({"t0": 0, "budget": None, "breaker": None, "policies": [p], "calls": [call]})
    return out


def long_run_sequences(rng, o, n=2):
    """a long run: 14 attempts, every one failing with a retryable class, with hooks that fail at every invocation and (in
    execute) a captured timeline — whatever the library counts per run (failures of a hook, events) gets beyond ten"""
    out = []
    for i in range(n):
        p = gen_policy(rng, dict(o, p_att_timeout=0.0, p_tight_deadline=0.0, p_handler=0.0, p_rc=0.0))
        p.update(max_attempts=14, deadline=2**33, max_unknown=None, per_class={}, strat_default=False, strat_tab={}, handler_p=False, has_rc=False)
        call = gen_call(rng, 0, p, dict(o, p_abort=0.0, p_handler=0.0, p_metric=1.0, p_log=0.8, p_timeline=1.0, mode=["execute", "call"][i % 2]),
                        entries=["retry"])
        call["env"].update(ops=[["R", rng.choice([0, 1]), rng.choice(["TRANSIENT", "SERVER_ERROR", "RATE_LIMIT"]), None] for _ in range(14)],
                           strat=[rng.choice([0, 1, 2]) for _ in range(14)], over=[0] * 14, handler=[], sleep_cancel=[], bs_cancel=[], abort=[],
                           metric_raises=[True] * 80, log_raises=[rng.random() < 0.5 for _ in range(80)], bs_raises=[True] * 20)
        call["cfg"].update(handler_c=False, has_abort=False)
        call["variant"]["same_exc"] = call["variant"]["exc_group"] = False
        out.append({"t0": 0, "budget": None, "breaker": None, "policies": [p], "calls": [call]})
    return out


def gen_sequence(rng, o):
    if rng.random() < o.get("p_cap_mix", 0.0):
        return cap_mix_sequence(rng, o)
    n_pol = 1 if rng.random() < 0.8 else 2
    policies = [gen_policy(rng, o) for _ in range(n_pol)]
    budget = None
    if rng.random() < o.get("p_budget", 0.3):
        budget = {"max": rng.choice([0, 1, 1, 2, 3]), "win": rng.choice([1, 3, 8, 64, 10**5])}
    n_calls = 1 if rng.random() < o.get("p_single", 0.6) else rng.randint(2, 4)
    calls = []
    for _ in range(n_calls):
        pidx = rng.randrange(n_pol)
        calls.append(gen_call(rng, pidx, policies[pidx], o))
    return {"t0": rng.choice([0, 5, 1000, 2**36]), "budget": budget, "breaker": None, "policies": policies, "calls": calls,
            "falsy_shared": rng.random() < 0.6}


# ------------------------------------------------------------------------------------------------
# Gallina printers
# ------------------------------------------------------------------------------------------------
def gz(x):
    """tick value from the driver -> Z literal (sentinel when off-grid / unexpected)"""
    if isinstance(x, bool) or not isinstance(x, int):
        return G.z(BAD)
    return G.z(x)


def goz(x):
    return "None" if x is None else f"(Some {gz(x)})"


def goh(x):
    """Retry-After hint: ticks or a non-finite float"""
    if x is None:
        return "None"
    if isinstance(x, str):
        return {"nan": "(Some HNaN)", "inf": "(Some HPInf)", "-inf": "(Some HNInf)"}.get(x, f"(Some (HFin {G.z(BAD)}))")
    return f"(Some (HFin {gz(x)}))"


def g_classif(klass, ra):
    return G.rec(cl_k=klass, cl_ra=goh(ra))


def g_op(op):
    kind, dur, klass, ra = op[:4]
    if kind == "V":
        o = G.con("OValue", "None" if klass is None else f"(Some {g_classif(klass, ra)})")
    elif kind in ("R", "O"):
        o = G.con("ORaise", g_classif(klass, ra))
    elif kind == "A":
        o = "OAbort"
    elif kind == "C":
        o = G.con("OCancel", CK[klass])
    elif kind == "N":
        o = "ONested"
    else:
        raise ValueError(kind)
    return G.pair(o, G.z(dur))


def g_sval(v):
    if v in ("huge", "-huge", "hugeint", "-hugeint"):
        # 1e300 s, or the int 10**400 (an integer backoff like 2 ** attempt grown beyond the float range): any finite value beyond every
        # deadline (the model only takes min / max with it)
        return G.con("SFin", "(2 ^ 1000)" if not v.startswith("-") else "(- 2 ^ 1000)")
    return {"nan": "SNaN", "inf": "SPInf", "-inf": "SNInf"}.get(v) or G.con("SFin", G.z(v))


def g_env(env):
    return G.con(
        "mk_env", G.lst(env["ops"], g_op), G.lst(env["abort"], G.b), G.lst(env["strat"], g_sval),
        G.lst(env["handler"], lambda h: HD[h]), G.lst(env["over"], G.z),
        G.lst(env["sleep_cancel"], lambda k: G.opt(CK.get(k) if k else None)),
        G.lst(env["metric_raises"], G.b), G.lst(env["log_raises"], G.b), G.lst(env["bs_raises"], G.b),
        G.lst(env["bs_cancel"], lambda k: G.opt(CK.get(k) if k else None)))


def g_cfg(c, budget):
    b = "None" if budget is None else "(Some " + G.rec(bmax=G.z(budget["max"]), bwin=G.z(budget["win"])) + ")"
    return G.con(
        "mk_cfg", G.z(c["max_attempts"]), G.z(c["deadline"]), G.opt(c["max_unknown"], G.z),
        G.lst(sorted(c["per_class"].items()), lambda kv: G.pair(kv[0], G.z(kv[1]))),
        G.lst(sorted(c["strat_tab"].items()), lambda kv: G.pair(kv[0], G.b(kv[1]))),
        G.opt(c["strat_default"], G.b), G.lst([c[f] for f in FLAGS], G.b), b)


def g_tags(t, decorator=False):
    extra = "extra" in t or "state" in t
    klass = t.get("class")
    # ScriptedTimeout: the operation's own TimeoutError; TimeoutError: the runner's, for an attempt scripted to hang
    ok_err = t.get("err") in (None, "ScriptedError", "CircuitOpenError", "ScriptedTimeout", "TimeoutError", "EmptyBatchError",
                              "EmptyBatchTimeout", "ExceptionGroup")
    ok_op = t.get("operation") in (None, "opname")
    return G.rec(
        t_class=G.opt(klass if klass in KLASSES else None),
        t_err=G.b("err" in t),
        t_stop=G.opt(STOP.get(t.get("stop_reason")) if "stop_reason" in t else None),
        t_cause={"exception": "(Some CExc)", "result": "(Some CRes)"}.get(t.get("cause"), "None"),
        t_op=G.b("operation" in t),
    ), (not extra and ok_err and ok_op and (klass is None or klass in KLASSES)
        and ("stop_reason" not in t or t["stop_reason"] in STOP) and t.get("cause") in (None, "exception", "result"))


def g_sid(s):
    return "SidDefault" if s == "default" else G.con("SidClass", s)


def g_cause(c):
    return {"exception": "(Some CExc)", "result": "(Some CRes)"}.get(c, "None")


def g_event(e):
    t = e[0]
    if t == "P":
        return G.con("EPoll", G.b(e[1]))
    if t == "I":
        return G.con("EInvoke", gz(e[1]), gz(e[2]))
    if t == "K":
        return G.con("EClassify", gz(e[1]))
    if t == "RK":
        return G.con("ERClassify", gz(e[1]))
    if t == "ST":
        _, sid, legacy, att, klass, ra, prev, rem, cause = e
        return G.con("EStrat", g_sid(sid), G.b(legacy), gz(att), klass, goh(ra), goz(prev), goz(rem), g_cause(cause))
    if t == "B":
        return G.con("EBudget", G.b(e[1]))
    if t == "BR":      # Budget.remaining() called by the retry loop: the model only ever calls consume()
        return G.con("EBudget", G.b(isinstance(e[1], int) and e[1] > 0))
    if t == "M":
        tg, ok = g_tags(e[4])
        name = EVN.get(e[1], "N_OTHER") if ok else "N_OTHER"
        return G.con("EMetric", name, gz(e[2]), gz(e[3]), tg)
    if t == "L":
        tg, ok = g_tags(e[4])
        name = EVN.get(e[1], "N_OTHER") if ok else "N_OTHER"
        return G.con("ELog", name, gz(e[2]), gz(e[3]), tg, goh(e[5]))
    if t == "H":
        return G.con("EHandler", WHO[e[1]], gz(e[2]), e[3], gz(e[4]), HD[e[5]])
    if t == "BS":
        return G.con("EBeforeSleep", WHO[e[1]], gz(e[2]), gz(e[3]))
    if t == "SL":
        return G.con("ESleep", WHO[e[1]], gz(e[2]), gz(e[3]))
    # anything else (unexpected classifier argument, breaker spy in a runner-only run, ...)
    return G.con("EClassify", G.z(BAD))


def g_ident(x):
    if x is None:
        return "None"
    return f"(Some {gz(x)})"


def g_delivery(d):
    t = d[0]
    if t == "return":
        return G.con("DReturn", gz(d[1]))
    if t == "raise_op":
        return G.con("DRaiseOp", gz(d[1]))
    if t == "exhausted":
        _, stop, attempts, lc, lexc, lres, nxt = d
        if stop not in STOP:
            return "DUnexpected"
        return G.con("DExhausted", STOP[stop], gz(attempts), G.opt(lc), g_ident(lexc), g_ident(lres), goz(nxt))
    if t == "abort":
        return "DAbort"
    if t == "cancel":
        return G.con("DCancel", CK[d[1]], gz(d[2]))
    if t == "cancel_sleep":
        return G.con("DCancelSleep", CK[d[1]], gz(d[2]))
    if t == "nested":
        return G.con("DNested", gz(d[1]))
    if t == "runtime_error":
        return "DRuntimeError"
    if t == "outcome":
        o = d[1]
        if o["stop"] is not None and o["stop"] not in STOP:
            return "DUnexpected"
        tl = "None"
        if o["tl"] is not None:
            def g_tl(x):
                att, name, el, sl, klass, stop, cause = x
                return G.rec(tl_att=gz(att), tl_name=EVN.get(name, "N_OTHER"), tl_elapsed=gz(el), tl_sleep=gz(sl),
                             tl_class=G.opt(klass), tl_stop=G.opt(STOP.get(stop) if stop else None), tl_cause=g_cause(cause))
            tl = "(Some " + G.lst(o["tl"], g_tl) + ")"
        return G.con("DOutcome", G.rec(
            o_ok=G.b(o["ok"]), o_value=g_ident(o["value"]), o_stop=G.opt(STOP.get(o["stop"]) if o["stop"] else None),
            o_attempts=gz(o["attempts"]), o_class=G.opt(o["class"]), o_exc=g_ident(o["exc"]), o_res=g_ident(o["res"]),
            o_cause=g_cause(o["cause"]), o_elapsed=gz(o["elapsed"]), o_next=goz(o["next"]), o_tl=tl))
    return "DUnexpected"


def g_case(seq, obs):
    calls = []
    for call in seq["calls"]:
        pol = seq["policies"][call["policy"]]
        b = seq["budget"] if pol.get("use_budget", True) else None
        calls.append(G.rec(cs_mode="MCall" if call["mode"] == "call" else "MExec", cs_cfg=g_cfg(call["cfg"], b),
                           cs_env=g_env(call["env"]), cs_gap=G.z(call.get("gap", 0))))
    ob = [G.pair(g_delivery(o["delivery"]), G.lst(o["trace"], g_event)) for o in obs]
    return G.rec(rc_calls=G.lst(calls), rc_t0=G.z(seq["t0"]), rc_obs=G.lst(ob))


# ------------------------------------------------------------------------------------------------
# pipeline
# ------------------------------------------------------------------------------------------------
def load_corpus(pid):
    p = os.path.join(common.VERIF, "corpus", f"{pid}.json")
    return json.load(open(p)) if os.path.exists(p) else []


def run_impl(seqs, jobs=8):
    return common.run_driver("runner_driver", seqs, jobs=jobs)


def compare_in_coq(chk, seqs, obs, proj, name="runner", shard=150):
    lits = [g_case(s, o) for s, o in zip(seqs, obs)]
    return common.coq_failing(chk.workdir, name, "Base Budget Runner Corr", "rcase", f"rcase_ok {proj}", lits, shard=shard)


def model_eval(chk, seq, obs=None):
    """Ask Coq for the model's (delivery, trace) of every call of one sequence (for replay files)."""
    lit = g_case(seq, obs or [{"delivery": ["abort"], "trace": []} for _ in seq["calls"]])
    rc, out, err = common.coq_eval(chk.workdir, "model", "Base Budget Runner Corr",
                                   f"let k := {lit} in run_seq (rc_calls k) (rc_t0 k) []")
    return out[-6000:] if rc == 0 else err[-2000:]


def stats(seqs, obs):
    st = {"calls": 0, "invocations": 0, "stop_reasons": {}, "deliveries": {}, "async_calls": 0, "max_trace": 0,
          "entries": {}, "budget_refusals": 0, "hook_fault_scripts": 0}
    for s, ob in zip(seqs, obs):
        for call, o in zip(s["calls"], ob):
            st["calls"] += 1
            st["async_calls"] += 1 if call["async"] else 0
            st["entries"][call["entry"]] = st["entries"].get(call["entry"], 0) + 1
            st["invocations"] += sum(1 for e in o["trace"] if e[0] == "I")
            st["max_trace"] = max(st["max_trace"], len(o["trace"]))
            st["budget_refusals"] += sum(1 for e in o["trace"] if e[0] == "B" and not e[1])
            d = o["delivery"]
            st["deliveries"][d[0]] = st["deliveries"].get(d[0], 0) + 1
            r = d[1] if d[0] == "exhausted" else (d[1].get("stop") if d[0] == "outcome" else None)
            if r:
                st["stop_reasons"][r] = st["stop_reasons"].get(r, 0) + 1
            if any(call["env"][k] for k in ("metric_raises", "log_raises", "bs_raises")):
                st["hook_fault_scripts"] += 1
    return st


def nontrivial_key(seq, ob):
    """distinct non-trivial = some call has >= 2 invocations or a non-success ending"""
    nt = False
    for o in ob:
        inv = sum(1 for e in o["trace"] if e[0] == "I")
        d = o["delivery"]
        ok = d[0] == "return" or (d[0] == "outcome" and d[1].get("ok"))
        if inv >= 2 or not ok:
            nt = True
    return common.digest([[o["trace"], o["delivery"]] for o in ob]) if nt else None


# ------------------------------------------------------------------------------------------------
# generic check for a retry-loop property
# ------------------------------------------------------------------------------------------------
def shrink_seq(pid, seq, fails):
    """keep the property failing while making the script smaller: single call, no hook faults,
    fewer operations.  fails(list of seqs) -> list of bool."""
    import copy
    cur = seq
    # 1. a single call of the sequence
    if len(cur["calls"]) > 1:
        cands = []
        for j in range(len(cur["calls"])):
            s = copy.deepcopy(cur)
            s["calls"] = [s["calls"][j]]
            cands.append(s)
        for s, bad in zip(cands, fails(cands)):
            if bad:
                cur = s
                break
    # 2. simplifications tried one at a time
    def variants(s):
        out = []
        for j, c in enumerate(s["calls"]):
            for key in ("metric_raises", "log_raises", "bs_raises", "abort", "sleep_cancel", "bs_cancel"):
                if c["env"][key]:
                    t = copy.deepcopy(s); t["calls"][j]["env"][key] = []; out.append(t)
            for flag in ("has_log", "has_opname", "capture_tl", "bs_c", "bs_p", "sleeper_c", "has_abort", "handler_c"):
                if c["cfg"][flag] and flag not in POLICY_FIELDS:
                    t = copy.deepcopy(s); t["calls"][j]["cfg"][flag] = False; out.append(t)
            if c["gap"]:
                t = copy.deepcopy(s); t["calls"][j]["gap"] = 0; out.append(t)
            if len(c["env"]["ops"]) > 1:
                t = copy.deepcopy(s); t["calls"][j]["env"]["ops"] = c["env"]["ops"][:-1]; out.append(t)
            for i, op in enumerate(c["env"]["ops"]):
                if op[1] and len(op) < 5:
                    t = copy.deepcopy(s); t["calls"][j]["env"]["ops"][i][1] = 0; out.append(t)
        if s["t0"]:
            t = copy.deepcopy(s); t["t0"] = 0; out.append(t)
        return out

    for _ in range(6):
        cands = variants(cur)
        if not cands:
            break
        res = fails(cands)
        nxt = next((s for s, bad in zip(cands, res) if bad), None)
        if nxt is None:
            break
        cur = nxt
    return cur


def abort_sentinels(seqs, obs, rng, frac=1.0, limit=250):
    """Derived scripts: for a call whose abort_if answered False throughout, script abort_if to answer True from
    the first poll the run did NOT make.  On code that polls where the model says, nothing changes; an extra
    poll anywhere (a dropped guard, a duplicated check) now sees True and the behaviour diverges."""
    import copy
    out = []
    for s, ob in zip(seqs, obs):
        idx = [j for j, (c, o) in enumerate(zip(s["calls"], ob))
               if c["cfg"]["has_abort"] and not any(c["env"]["abort"]) and o["delivery"][0] != "driver_error"]
        if not idx or rng.random() > frac:
            continue
        t = copy.deepcopy(s)
        for j in idx:
            polls = sum(1 for e in ob[j]["trace"] if e[0] == "P")
            t["calls"][j]["env"]["abort"] = [False] * polls + [True] * 4
        t["derived"] = "abort-sentinel"
        out.append(t)
        if len(out) >= limit:
            break
    return out


def abort_sweeps(seqs, obs, rng, limit=200):
    """Derived scripts: for a call whose abort_if answered False throughout, the answer turns True at a poll the run DID make
    (a random one of them; with on_metric installed so that a grant is visible).  A poll that was dropped from the code shifts
    the True answer to a later poll: a retry is then granted, a token spent or a sleep started although an abort was requested."""
    import copy
    out = []
    order = list(range(len(seqs)))
    rng.shuffle(order)
    for i in order:
        s, ob = seqs[i], obs[i]
        idx = [j for j, (c, o) in enumerate(zip(s["calls"], ob))
               if c["cfg"]["has_abort"] and not any(c["env"]["abort"]) and o["delivery"][0] != "driver_error"
               and sum(1 for e in o["trace"] if e[0] == "P") >= 2]
        if not idx or s.get("derived"):
            continue
        j = rng.choice(idx)
        polls = sum(1 for e in ob[j]["trace"] if e[0] == "P")
        t = copy.deepcopy(s)
        t["calls"] = t["calls"][:j + 1]
        t["calls"][j]["env"]["abort"] = [False] * rng.randrange(1, polls) + [True] * 4
        t["calls"][j]["cfg"]["has_metric"] = True
        t["derived"] = "abort-sweep"
        out.append(t)
        if len(out) >= limit:
            break
    return out


def run_runner_check(chk, pid, proj, opts, n_quick=400, n_thorough=6000, extra_seqs=None, oracle_pid=None,
                     keep_result=None, extra_oracle=None, theorems_ok=None):
    import oracles
    oracle_pid = oracle_pid or pid
    if theorems_ok is None:
        theorems_ok = chk.check_theorems()
    seqs = [s for s in load_corpus(pid)]
    n = n_quick if chk.tier == "quick" else n_thorough
    seqs += [gen_sequence(chk.rng, opts) for _ in range(n)]
    if extra_seqs:
        seqs += extra_seqs
    obs = run_impl(seqs, jobs=min(16, common.NPROC))
    sent = abort_sentinels(seqs, obs, chk.rng, limit=250 if chk.tier == "quick" else 3000)
    if sent:
        seqs += sent
        obs += run_impl(sent, jobs=min(16, common.NPROC))
    sweeps = abort_sweeps(seqs, obs, chk.rng, limit=200 if chk.tier == "quick" else 2500)
    if sweeps:
        seqs += sweeps
        obs += run_impl(sweeps, jobs=min(16, common.NPROC))
    drv = [(i, o["delivery"]) for i, ob in enumerate(obs) for o in ob if o["delivery"][0] == "driver_error"]
    if drv:
        raise common.DriverError("runner_driver failed on a script: " + str(drv[0][1][1])[-1500:])
    bad = []
    if oracle_pid in oracles.ORACLES:
        bad = [(i, m) for i, (s, o) in enumerate(zip(seqs, obs)) for m in [oracles.check_seq(oracle_pid, s, o)] if m]
    extra_bad = extra_oracle(seqs, obs) if extra_oracle else []
    failing, errors = [], []
    if theorems_ok:
        failing, errors = compare_in_coq(chk, seqs, obs, proj)
    st = stats(seqs, obs)
    distinct = {k for k in (nontrivial_key(s, o) for s, o in zip(seqs, obs)) if k}
    chk.coverage.update(
        evaluations=len(seqs), distinct_nontrivial=len(distinct),
        traces_validated_against_impl=0 if errors else st["calls"],
        rule="call sequences on one policy object (1-4 calls, optional shared Budget) with scripted operation outcomes, "
        "durations, abort answers, strategy returns, handler decisions, sleeper overshoot and hook faults, run through "
        "Retry/AsyncRetry .call/.execute on /repo; non-trivial = some call has >= 2 invocations or does not end in "
        "success; distinct by the full observed trace + delivery",
        samples=[{"script": seqs[i], "observed": obs[i]} for i in ([len(seqs) - 1] if seqs else [])],
        distribution=st, projection=proj, abort_sentinel_scripts=len(sent), abort_sweep_scripts=len(sweeps),
    )
    if errors:
        chk.violation({"kind": "correspondence-error", "what": "cases file did not evaluate", "errors": errors[:3]}, no_input=True)

    def fails_batch(cands):
        ob = run_impl(cands, jobs=4)
        return [oracles.check_seq(oracle_pid, s, o) is not None for s, o in zip(cands, ob)]

    if keep_result is not None:
        keep_result.update(seqs=seqs, obs=obs, bad=bad, failing=failing)
    if keep_result is not None and keep_result.get("defer") and not bad and not extra_bad:
        return seqs, obs
    if extra_bad:
        i, rep = extra_bad[0]
        rep = dict(rep)
        rep.setdefault("model_disagrees_on_original", i in failing)
        rep["also_failing"] = len(extra_bad)
        chk.violation(rep)
    elif bad:
        i, msg = bad[0]
        small = shrink_seq(oracle_pid, seqs[i], fails_batch)
        so = run_impl([small], jobs=1)[0]
        chk.violation({"kind": "oracle", "what": oracles.check_seq(oracle_pid, small, so) or msg, "script": small,
                       "observed": so, "driver": "runner_driver", "oracle": oracle_pid, "also_failing": len(bad),
                       "model_disagrees_on_original": i in failing,
                       "model": model_eval(chk, small, so) if theorems_ok else None})
    elif failing:
        i = failing[0]
        chk.violation({"kind": "correspondence", "what": f"Corr.rcase_ok {proj}: the implementation's observable behaviour "
                       f"differs from the Coq model of the retry loop on the events {pid} is about, so the theorems of "
                       f"Props/{pid}.v no longer describe this code; the property oracle found no violated clause",
                       "script": seqs[i], "observed": obs[i], "driver": "runner_driver", "oracle": oracle_pid,
                       "disagreements": len(failing), "model": model_eval(chk, seqs[i], obs[i])}, no_input=True)
    return seqs, obs


def slow_hooks_part(chk, pid, opts, n_quick=150, n_thorough=1500):
    """scripts whose on_metric / before_sleep / sleep-handler callbacks take time (the virtual clock moves inside them).  The
    model has no such world (time passes only in the operation and the sleeper), so nothing is compared with it; the data-flow
    clause of the property (oracles.delay_flow) is evaluated on the implementation alone.  It supports the search for a failing
    input when a translation no longer checks (a delay re-computed after a slow hook)."""
    import oracles
    o = dict(opts, p_tight_deadline=0.8, p_metric=0.9, p_bs=0.7, p_handler=0.5, handler_choices=["S", "S", "S", "D"], p_special=0.0,
             p_att_timeout=0.0, p_abort=0.1)
    seqs = []
    for _ in range(n_quick if chk.tier == "quick" else n_thorough):
        s = gen_sequence(chk.rng, o)
        for c in s["calls"]:
            c["variant"]["hook_cost"] = chk.rng.choice([1, 2, 3, 8, 64])
            c["env"]["strat"] = [chk.rng.choice([3, 5, 8, 13, 20, 2**20]) for _ in c["env"]["strat"]]
        seqs.append(s)
    obs = run_impl(seqs, jobs=min(16, common.NPROC))
    drv = [o2["delivery"] for ob in obs for o2 in ob if o2["delivery"][0] == "driver_error"]
    if drv:
        raise common.DriverError("runner_driver failed on a slow-hook script: " + str(drv[0][1])[-1500:])
    bad = [(i, m) for i, (s, ob) in enumerate(zip(seqs, obs)) for m in [oracles.check_seq("DELAYFLOW", s, ob)] if m]
    retries = sum(1 for ob in obs for c in ob for e in c["trace"] if e[0] == "SL")
    chk.coverage["slow_hook_scripts"] = {"scripts": len(seqs), "sleeps_observed": retries, "oracle": "delay_flow (no model)"}
    if bad and not chk.violations:
        i, m = bad[0]
        chk.violation({"kind": "oracle", "oracle": "DELAYFLOW", "part": "slow-hooks", "what": m, "script": seqs[i], "observed": obs[i],
                       "driver": "runner_driver", "also_failing": len(bad)})


def slow_record_part(chk, pids, opts, n_quick=150, n_thorough=1500):
    """scripts whose strategies are stateful objects with a record_failure() that takes time: the clock moves between the
    deadline test of a failure and the computation of the time remaining for its backoff.  No model of such a world; the
    property oracles named in [pids] (clauses about the clock readings at sleeper calls and invocations) are evaluated on the
    implementation alone."""
    import oracles
    o = dict(opts, p_tight_deadline=0.85, p_special=0.0, p_att_timeout=0.0, p_abort=0.0, p_handler=0.0)
    seqs = []
    for _ in range(n_quick if chk.tier == "quick" else n_thorough):
        s = gen_sequence(chk.rng, o)
        s["spy_strategy"] = True
        s["rf_cost"] = chk.rng.choice([1, 2, 3, 5, 8])
        for p in s["policies"]:
            # context-style strategies (a legacy function cannot carry record_failure), present for every class
            p["strat_default"] = False
            p["strat_tab"] = {k: False for k in p["strat_tab"]}
            p["handler_p"] = False
        for c in s["calls"]:
            for f in POLICY_FIELDS:
                c["cfg"][f] = s["policies"][c["policy"]][f]
            c["cfg"]["handler_c"] = False
            c["env"]["handler"] = []
            c["env"]["strat"] = [chk.rng.choice([1, 3, 5, 8, 13, 20, 2**20]) for _ in c["env"]["strat"]]
        seqs.append(s)
    obs = run_impl(seqs, jobs=min(16, common.NPROC))
    drv = [o2["delivery"] for ob in obs for o2 in ob if o2["delivery"][0] == "driver_error"]
    if drv:
        raise common.DriverError("runner_driver failed on a slow-record script: " + str(drv[0][1])[-1500:])
    bad = [(i, pid, m) for i, (s, ob) in enumerate(zip(seqs, obs)) for pid in pids for m in [oracles.check_seq(pid, s, ob)] if m]
    chk.coverage["slow_record_scripts"] = {"scripts": len(seqs), "record_failure_calls": sum(1 for ob in obs for c in ob for e in c["trace"] if e[0] == "SF"),
                                           "oracles": list(pids)}
    if bad and not chk.violations:
        i, pid, m = bad[0]
        chk.violation({"kind": "oracle", "oracle": pid, "part": "slow-record", "what": m, "script": seqs[i], "observed": obs[i],
                       "driver": "runner_driver", "also_failing": len(bad)})


def replay_runner(path):
    import oracles
    r = json.load(open(path))
    so = run_impl([r["script"]], jobs=1)[0]
    msg = oracles.check_seq(r.get("oracle", r.get("property")), r["script"], so) if r.get("oracle", r.get("property")) in oracles.ORACLES else None
    print(json.dumps(so)[:3000])
    print("oracle:", msg or "holds")
    return 1 if msg else 0
