"""Seeded-change tooling.
  seedtool.py verify <src_dir> <name>      confirm a sub-agent's change in a scratch worktree; keep as seeded/<name>/
  seedtool.py run <name> <Cxx> [<Cyy>...]  apply seeded/<name>/patch.diff to /repo, run the checks, undo
  seedtool.py matrix                        run every seeded change against the check of its property
  seedtool.py matrix-new                    the same for the seeded changes seeded/MATRIX.json does not list yet (merged into it)
"""
import json
import os
import shutil
import subprocess
import sys
import time

VERIF = os.path.dirname(os.path.dirname(os.path.abspath(__file__)))
REPO = "/repo"
PY = "/venv/bin/python"


def sh(cmd, cwd=None, env=None, timeout=1800):
    p = subprocess.run(cmd, shell=True, cwd=cwd, env=env, capture_output=True, text=True, timeout=timeout)
    return p.returncode, p.stdout + p.stderr


def verify(src, name):
    wt = f"/tmp/wt/verify-{name}"
    sh(f"git -C {REPO} worktree remove --force {wt}")
    rc, out = sh(f"git -C {REPO} worktree add --detach {wt} HEAD")
    assert rc == 0, out
    env = dict(os.environ, PYTHONPATH=f"{wt}/src", PYTHONHASHSEED="0")
    res = {}
    try:
        rc, out = sh(f"{PY} {src}/demo.py", cwd=wt, env=env, timeout=120)
        res["demo_pristine_rc"] = rc
        rc, out = sh(f"git apply {src}/patch.diff", cwd=wt)
        res["apply_rc"] = rc
        if rc != 0:
            print(out)
        rc, out = sh(f"{PY} -m pytest -q -p no:cacheprovider --no-cov -x tests", cwd=wt, env=env)
        res["tests_rc"] = rc
        res["tests_tail"] = out.strip().splitlines()[-1] if out.strip() else ""
        rc, out = sh(f"{PY} {src}/demo.py", cwd=wt, env=env, timeout=120)
        res["demo_changed_rc"] = rc
        res["demo_changed_tail"] = out.strip().splitlines()[-3:]
    finally:
        sh(f"git -C {REPO} worktree remove --force {wt}")
    ok = res.get("demo_pristine_rc") == 0 and res.get("apply_rc") == 0 and res.get("tests_rc") == 0 and res.get("demo_changed_rc") == 1
    print(name, "CONFIRMED" if ok else "REJECTED", json.dumps(res))
    if ok:
        dst = os.path.join(VERIF, "seeded", name)
        os.makedirs(dst, exist_ok=True)
        shutil.copy(f"{src}/patch.diff", dst)
        shutil.copy(f"{src}/demo.py", dst)
        meta = json.load(open(f"{src}/meta.json"))
        meta["confirmed_by_me"] = {
            "ran": [f"git apply patch.diff (scratch worktree of /repo HEAD)", "pytest -q --no-cov tests (225 pass)",
                    "demo.py on pristine (exit 0) and on changed tree (exit 1)"],
            "result": res,
        }
        json.dump(meta, open(os.path.join(dst, "meta.json"), "w"), indent=1)
    return ok


def run(name, pids, tier="quick"):
    d = os.path.join(VERIF, "seeded", name)
    rc, out = sh(f"git -C {REPO} status --porcelain")
    assert out.strip() == "", "repo dirty: " + out
    rc, out = sh(f"git -C {REPO} apply {d}/patch.diff")
    assert rc == 0, out
    results = {}
    # the committed evidence describes runs on the unchanged tree: keep it
    ev = {pid: os.path.join(VERIF, "evidence", pid + ".json") for pid in pids}
    saved = {pid: open(f, "rb").read() for pid, f in ev.items() if os.path.exists(f)}
    try:
        for pid in pids:
            t0 = time.time()
            rc, out = sh(f"./check {pid} --tier {tier}", cwd=VERIF, timeout=3600)
            viol = [l for l in out.splitlines() if l.startswith("VIOLATION")]
            results[pid] = {"rc": rc, "violations": viol[:2], "wall": round(time.time() - t0, 1),
                            "with_input": any(not l.rstrip().endswith("no-failing-input-found") for l in viol)}
    finally:
        sh(f"git -C {REPO} checkout -- .")
        for pid, data in saved.items():
            with open(ev[pid], "wb") as f:
                f.write(data)
    print(name, json.dumps(results))
    return results


if __name__ == "__main__":
    if sys.argv[1] == "verify":
        sys.exit(0 if verify(sys.argv[2], sys.argv[3]) else 1)
    if sys.argv[1] == "run":
        run(sys.argv[2], sys.argv[3:])
    if sys.argv[1] in ("matrix", "matrix-new"):
        # matrix-new: only the seeded changes MATRIX.json does not list yet; results are merged into it
        tier = sys.argv[2] if len(sys.argv) > 2 else "quick"
        out = {}
        mpath = os.path.join(VERIF, "seeded", "MATRIX.json")
        have = json.load(open(mpath)) if sys.argv[1] == "matrix-new" and os.path.exists(mpath) else {}
        out.update(have)
        for name in sorted(os.listdir(os.path.join(VERIF, "seeded"))):
            if not os.path.isdir(os.path.join(VERIF, "seeded", name)):
                continue
            if name in have:
                continue
            meta = json.load(open(os.path.join(VERIF, "seeded", name, "meta.json")))
            pid = meta["property"]
            if meta.get("obsolete"):
                out[name] = {"obsolete": meta["obsolete"]["since"]}
                continue
            if os.path.exists(os.path.join(VERIF, "harness", "props", pid + ".py")):
                try:
                    out[name] = run(name, [pid], tier)
                except AssertionError as e:
                    out[name] = {pid: {"rc": -1, "violations": [], "error": str(e)[:200]}}
                    sh(f"git -C {REPO} checkout -- .")
                    print(name, "ERROR", str(e)[:200])
        json.dump(out, open(os.path.join(VERIF, "seeded", "MATRIX.json"), "w"), indent=1)
