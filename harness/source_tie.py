"""Source tie by translation: budget.py -> PyIR terms + proof obligations (coq/templates/BudgetIRProofs.v.in).

The generated file is written into the check's work directory and compiled against the built theories on every run, so
`consume_ir_correct`, `remaining_ir_correct`, `init_ir_correct` and `ir_run_correct` are re-proved about what
/repo/src/redress/budget.py says now."""
import os
import re

import common
import pyir_circuit
import pyir_classify
import pyir_failure
import pyir_loop
import pyir_policy
import pyir_sugar
import pyir_sleep
import pyir_state
import pyir_translate

THEOREMS = ["consume_ir_correct", "remaining_ir_correct", "init_ir_correct", "ir_run_correct", "source_meets_spec"]


def budget_tie(chk):
    """-> dict(ok, stage, detail).  stage: 'translate' (source left the translated fragment) or 'proof'."""
    out = os.path.join(chk.workdir, "BudgetIR.v")
    tpl = os.path.join(common.COQ, "templates", "BudgetIRProofs.v.in")
    src = os.path.join(common.REPO, "src")
    try:
        meths = pyir_translate.generate(src, out, tpl)
    except pyir_translate.TranslationError as e:
        return {"ok": False, "stage": "translate", "detail": f"redress/budget.py is outside the translated fragment: {e}"}
    except (OSError, SyntaxError) as e:
        return {"ok": False, "stage": "translate", "detail": f"redress/budget.py could not be read: {e}"}
    rc, stdout, stderr, wall = common.run(["coqc", "-Q", common.THEORIES, "Redress", "-w", "none", out], 600, cwd=chk.workdir)
    closed = stdout.count("Closed under the global context")
    if rc != 0:
        m = re.search(r'line (\d+)', stderr)
        where = ""
        if m:
            lines = open(out).read().split("\n")
            ln = int(m.group(1))
            # name the enclosing lemma
            for k in range(ln - 1, -1, -1):
                mm = re.match(r"(Lemma|Theorem)\s+(\w+)", lines[k])
                if mm:
                    where = mm.group(2)
                    break
        return {"ok": False, "stage": "proof", "theorem": where or "BudgetIR.v",
                "detail": f"obligation {where or '?'} on the translated source no longer checks: {stderr.strip()[-600:]}",
                "ir": {k: v[2] for k, v in meths.items()}}
    return {"ok": True, "stage": "done", "theorems": THEOREMS, "closed_under_global_context": closed, "seconds": round(wall, 1),
            "methods": sorted(meths)}


CIRCUIT_THEOREMS = ["init_ir_correct", "state_ir_correct", "allow_ir_correct", "record_success_ir_correct", "record_failure_ir_correct",
                    "record_cancel_ir_correct", "krun_ir_correct", "source_meets_spec", "source_open_rejects",
                    "source_probe_in_flight_rejects", "source_recovery_admits_one_probe"]


def circuit_tie(chk):
    """circuit.py -> PyIRH terms + obligations (coq/templates/CircuitIRProofs.v.in): the translated allow / record_success /
    record_failure / record_cancel / state (with _note_failure, _prune, _clear_failures) compute Breaker.v's functions on every
    state related by [Rel], hence every history computes Breaker.krun."""
    out = os.path.join(chk.workdir, "CircuitIR.v")
    tpl = os.path.join(common.COQ, "templates", "CircuitIRProofs.v.in")
    try:
        meths, used = pyir_circuit.generate(os.path.join(common.REPO, "src"), out, tpl)
    except pyir_translate.TranslationError as e:
        return {"ok": False, "stage": "translate", "detail": f"redress/circuit.py is outside the translated fragment: {e}"}
    except (OSError, SyntaxError) as e:
        return {"ok": False, "stage": "translate", "detail": f"redress/circuit.py could not be read: {e}"}
    rc, stdout, stderr, wall = common.run(["coqc", "-Q", common.THEORIES, "Redress", "-w", "none", out], 900, cwd=chk.workdir)
    closed = stdout.count("Closed under the global context")
    if rc != 0:
        where = ""
        m = re.search(r"line (\d+)", stderr)
        if m:
            lines = open(out).read().split("\n")
            for k in range(int(m.group(1)) - 1, -1, -1):
                mm = re.match(r"\s*(Lemma|Theorem)\s+(\w+)", lines[k])
                if mm:
                    where = mm.group(2)
                    break
        return {"ok": False, "stage": "proof", "theorem": where or "CircuitIR.v",
                "detail": f"obligation {where or '?'} on the translated source no longer checks: {stderr.strip()[-600:]}",
                "ir": {k: v[1] for k, v in meths.items()}}
    return {"ok": True, "stage": "done", "theorems": CIRCUIT_THEOREMS, "closed_under_global_context": closed, "seconds": round(wall, 1),
            "methods": sorted(meths), "event_names": used}


CLASSIFY_THEOREMS = ["classify_ir_correct", "default_classifier_ir", "strict_classifier_ir", "source_marker_wins", "coerce_ir_correct",
                     "http_classifier_ir", "sqlstate_classifier_ir", "pyodbc_classifier_ir"]


def classify_tie(chk):
    """classify.py (_classify, default_classifier, strict_classifier) and extras/http.py (_coerce_status, http_classifier)
    -> PyIRC decision programs + obligations
    (coq/templates/ClassifyIRProofs.v.in): the translated function is Classify.classify for every exception object."""
    out = os.path.join(chk.workdir, "ClassifyIR.v")
    tpl = os.path.join(common.COQ, "templates", "ClassifyIRProofs.v.in")
    try:
        prog = pyir_classify.generate(os.path.join(common.REPO, "src"), out, tpl)
    except pyir_translate.TranslationError as e:
        return {"ok": False, "stage": "translate", "detail": f"redress/classify.py or an extras classifier is outside the translated fragment: {e}"}
    except (OSError, SyntaxError) as e:
        return {"ok": False, "stage": "translate", "detail": f"redress/classify.py could not be read: {e}"}
    rc, stdout, stderr, wall = common.run(["coqc", "-Q", common.THEORIES, "Redress", "-w", "none", out], 600, cwd=chk.workdir)
    if rc != 0:
        return {"ok": False, "stage": "proof", "theorem": "classify_ir_correct",
                "detail": f"obligation on the translated source no longer checks: {stderr.strip()[-600:]}", "ir": {"_classify": prog}}
    return {"ok": True, "stage": "done", "theorems": CLASSIFY_THEOREMS, "closed_under_global_context": stdout.count("Closed under the global context"),
            "seconds": round(wall, 1), "functions": ["_classify", "default_classifier", "strict_classifier", "extras.http._coerce_status",
                                                     "extras.http.http_classifier", "extras.sqlstate.sqlstate_classifier",
                                                     "extras.pyodbc.pyodbc_classifier"],
            "not_translated": ["optional-library classifiers (aiohttp, grpc, boto3, redis, urllib3)",
                               "the regular expressions themselves: the two pattern literals are matched verbatim and stand for the "
                               "model's search_sqlstate / search_bracketed"]}


FAILURE_THEOREMS = ["handle_failure_ir_correct", "source_decision"]


def failure_tie(chk):
    """_RetryState._handle_failure (policy/state.py) -> a PyIRF program + obligation (coq/templates/FailureIRProofs.v.in): the
    translated function is Runner.handle_failure (decision, state, events) for every input."""
    out = os.path.join(chk.workdir, "FailureIR.v")
    tpl = os.path.join(common.COQ, "templates", "FailureIRProofs.v.in")
    try:
        prog = pyir_failure.generate(os.path.join(common.REPO, "src"), out, tpl)
    except pyir_translate.TranslationError as e:
        return {"ok": False, "stage": "translate", "detail": f"_RetryState._handle_failure is outside the translated fragment: {e}"}
    except (OSError, SyntaxError) as e:
        return {"ok": False, "stage": "translate", "detail": f"redress/policy/state.py could not be read: {e}"}
    rc, stdout, stderr, wall = common.run(["coqc", "-Q", common.THEORIES, "Redress", "-w", "none", out], 600, cwd=chk.workdir)
    if rc != 0:
        return {"ok": False, "stage": "proof", "theorem": "handle_failure_ir_correct",
                "detail": f"the translated _handle_failure no longer proves equal to Runner.handle_failure: {stderr.strip()[-600:]}",
                "ir": {"_handle_failure": prog}}
    return {"ok": True, "stage": "done", "theorems": FAILURE_THEOREMS, "closed_under_global_context": stdout.count("Closed under the global context"),
            "seconds": round(wall, 1), "functions": ["_RetryState._handle_failure"],
            "not_translated": ["the four runner loops, _finalize_attempt and the sleep protocol (retry_helpers.py), emit / record_failure / "
                               "_select_strategy / _build_backoff_context (their meaning is the corresponding Runner.v operation)"]}


SLEEP_THEOREMS = ["backoff_ir_correct"]


def sleep_tie(chk):
    """retry_helpers.py's sleep protocol (_sync/_async_sleep_action, _handle_sleep_decision, _finalize_attempt, the glue and the
    guarded hook callers) -> PyIRS token lists + obligation (coq/templates/SleepIRProofs.v.in): their composition is Runner.backoff."""
    out = os.path.join(chk.workdir, "SleepIR.v")
    tpl = os.path.join(common.COQ, "templates", "SleepIRProofs.v.in")
    try:
        prog = pyir_sleep.generate(os.path.join(common.REPO, "src"), out, tpl)
    except pyir_translate.TranslationError as e:
        return {"ok": False, "stage": "translate", "detail": f"the sleep protocol in retry_helpers.py is outside the translated fragment: {e}"}
    except (OSError, SyntaxError) as e:
        return {"ok": False, "stage": "translate", "detail": f"redress/policy/retry_helpers.py could not be read: {e}"}
    rc, stdout, stderr, wall = common.run(["coqc", "-Q", common.THEORIES, "Redress", "-w", "none", out], 600, cwd=chk.workdir)
    if rc != 0:
        return {"ok": False, "stage": "proof", "theorem": "backoff_ir_correct",
                "detail": f"the translated sleep protocol no longer proves equal to Runner.backoff: {stderr.strip()[-600:]}", "ir": prog}
    return {"ok": True, "stage": "done", "theorems": SLEEP_THEOREMS, "closed_under_global_context": stdout.count("Closed under the global context"),
            "seconds": round(wall, 1),
            "functions": ["_sync_sleep_action", "_async_sleep_action (= sync up to await)", "_handle_sleep_decision", "_finalize_attempt",
                          "_sync_failure_outcome / _async_failure_outcome (shape)", "_call_before_sleep(_async) / _call_async_sleeper (shape)"],
            "not_translated": ["the four runner loops (sync_core.py / async_core.py)"]}


LOOP_THEOREMS = ["call_iter_ir_correct", "execute_iter_ir_correct", "call_loop_ir_correct", "execute_loop_ir_correct",
                 "source_C01_invocations", "source_C02_attempt_start", "source_C02_sleep_within_remaining"]


def loop_tie(chk):
    """the bodies of the four retry loops (runner/sync_core.py, runner/async_core.py = sync up to await) -> PyIRL token lists +
    obligations (coq/templates/LoopIRProofs.v.in): one execution of the translated body is Runner.iter followed by Runner.deliver,
    hence the loop over range(1, max_attempts + 1) with its fall-through is Runner.run."""
    out = os.path.join(chk.workdir, "LoopIR.v")
    tpl = os.path.join(common.COQ, "templates", "LoopIRProofs.v.in")
    try:
        prog = pyir_loop.generate(os.path.join(common.REPO, "src"), out, tpl)
    except pyir_translate.TranslationError as e:
        return {"ok": False, "stage": "translate", "detail": f"the retry loops in policy/runner are outside the translated fragment: {e}"}
    except (OSError, SyntaxError) as e:
        return {"ok": False, "stage": "translate", "detail": f"redress/policy/runner could not be read: {e}"}
    rc, stdout, stderr, wall = common.run(["coqc", "-Q", common.THEORIES, "Redress", "-w", "none", out], 600, cwd=chk.workdir)
    if rc != 0:
        where = "LoopIR.v"
        m = re.search(r"line (\d+)", stderr)
        if m:
            lines = open(out).read().split("\n")
            for k in range(int(m.group(1)) - 1, -1, -1):
                mm = re.match(r"\s*(Lemma|Theorem)\s+(\w+)", lines[k])
                if mm:
                    where = mm.group(2)
                    break
        return {"ok": False, "stage": "proof", "theorem": where,
                "detail": f"the translated loop body no longer proves equal to Runner.iter + Runner.deliver ({where}): {stderr.strip()[-600:]}",
                "ir": prog}
    return {"ok": True, "stage": "done", "theorems": LOOP_THEOREMS, "closed_under_global_context": stdout.count("Closed under the global context"),
            "seconds": round(wall, 1),
            "functions": ["_run_sync_call", "_run_sync_execute", "_run_async_call / _run_async_execute (= sync up to await)",
                          "loop header, state construction and fall-through (shape)"],
            "pinned_helpers": sorted(pyir_loop.PINS),
            "not_translated": ["attempt hooks (no-ops in the model), _call_with_timeout / asyncio.wait_for (section 15 of DESIGN.md), "
                               "the helpers of runner/logic.py and retry_helpers.py listed under pinned_helpers: their statements are "
                               "pinned by digest and their meaning is the corresponding Runner.v operation"]}


POLICY_THEOREMS = ["call_ir_correct", "async_call_ir_correct", "execute_ir_correct", "async_execute_ir_correct", "policy_seq_ir_correct",
                   "source_C08_call_keeps_quiescent", "source_C09_one_record"]


def policy_tie(chk):
    """Policy / AsyncPolicy .call / .execute (policy/policy.py, policy/async_policy.py, helper methods inlined) -> PyIRP token lists
    + obligations (coq/templates/PolicyIRProofs.v.in): executing the translated entry point is Policy.policy_call (delivery, trace
    with exactly the record settle_of names, clock, budget, breaker state), hence every sequence of calls is Policy.policy_seq."""
    out = os.path.join(chk.workdir, "PolicyIR.v")
    tpl = os.path.join(common.COQ, "templates", "PolicyIRProofs.v.in")
    try:
        prog = pyir_policy.generate(os.path.join(common.REPO, "src"), out, tpl)
    except pyir_translate.TranslationError as e:
        return {"ok": False, "stage": "translate", "detail": f"the policy wrappers are outside the translated fragment: {e}"}
    except (OSError, SyntaxError) as e:
        return {"ok": False, "stage": "translate", "detail": f"redress/policy/policy.py / async_policy.py could not be read: {e}"}
    rc, stdout, stderr, wall = common.run(["coqc", "-Q", common.THEORIES, "Redress", "-w", "none", out], 900, cwd=chk.workdir)
    if rc != 0:
        where = "PolicyIR.v"
        m = re.search(r"line (\d+)", stderr)
        if m:
            lines = open(out).read().split("\n")
            for k in range(int(m.group(1)) - 1, -1, -1):
                mm = re.match(r"\s*(Lemma|Theorem)\s+(\w+)", lines[k])
                if mm:
                    where = mm.group(2)
                    break
        return {"ok": False, "stage": "proof", "theorem": where,
                "detail": f"the translated policy wrapper no longer proves equal to Policy.policy_call ({where}): {stderr.strip()[-600:]}",
                "ir": prog}
    return {"ok": True, "stage": "done", "theorems": POLICY_THEOREMS, "closed_under_global_context": stdout.count("Closed under the global context"),
            "seconds": round(wall, 1),
            "functions": ["Policy.call", "Policy.execute", "Policy._execute_with_retry", "Policy._execute_without_retry",
                          "Policy._handle_abort_call / _handle_exhausted_call / _handle_exception_call", "Policy._call_without_retry (shape)",
                          "AsyncPolicy: the same methods"],
            "pinned_helpers": sorted(pyir_policy.PINS),
            "not_translated": ["attempt hooks (no-ops), the context managers, RetryPolicy / AsyncRetryPolicy and the decorator (they "
                               "delegate to Policy; tied by correspondence), the helpers of policy/execution.py and policy_helpers.py "
                               "listed under pinned_helpers: pinned by digest, their meaning is Policy.do_allow / do_settle / nr_outcome"]}


SUGAR_THEOREMS = ["forwarding_tables_ok", "all_sites_present", "site_ok_handed", "site_ok_complete", "defaults_agree"]


def sugar_tie(chk):
    """the delegating layers (wrappers.py, context.py, decorator.py, the constructors / from_config / context() of the policy classes,
    RetryConfig) -> forwarding tables and default tables + obligations (coq/templates/SugarIRProofs.v.in): every delegation hands over
    every parameter of its callee under its own name (up to the documented renames) and every layer repeats the base defaults."""
    out = os.path.join(chk.workdir, "SugarIR.v")
    tpl = os.path.join(common.COQ, "templates", "SugarIRProofs.v.in")
    try:
        info = pyir_sugar.generate(os.path.join(common.REPO, "src"), out, tpl)
    except pyir_translate.TranslationError as e:
        return {"ok": False, "stage": "translate", "detail": f"a delegating layer is outside the translated fragment: {e}"}
    except (OSError, SyntaxError, KeyError, AttributeError, IndexError) as e:
        return {"ok": False, "stage": "translate", "detail": f"the delegating layers could not be read: {type(e).__name__}: {e}"}
    rc, stdout, stderr, wall = common.run(["coqc", "-w", "none", out], 300, cwd=chk.workdir)
    if rc != 0:
        where = "SugarIR.v"
        m = re.search(r"line (\d+)", stderr)
        if m:
            lines = open(out).read().split("\n")
            for k in range(int(m.group(1)) - 1, -1, -1):
                mm = re.match(r"\s*(Lemma|Theorem)\s+(\w+)", lines[k])
                if mm:
                    where = mm.group(2)
                    break
        return {"ok": False, "stage": "proof", "theorem": where,
                "detail": f"a delegation no longer hands every parameter over under its own name, or a default differs ({where}): "
                          f"{stderr.strip()[-400:]}"}
    return {"ok": True, "stage": "done", "theorems": SUGAR_THEOREMS, "closed_under_global_context": stdout.count("Closed under the global context"),
            "seconds": round(wall, 1), "sites": info["sites"], "layers": info["layers"],
            "not_translated": ["RetryPolicy.__getattr__ / __setattr__ (driven by the correspondence: entry point retrypolicyattr)"]}


STATE_THEOREMS = ["emit_ir_correct", "check_abort_ir_correct", "record_failure_ir_correct"]


def state_tie(chk):
    """_RetryState.emit / check_abort / record_failure (policy/state.py) and the timeline hook (runner/timeline.py) -> PyIRE token
    lists + obligations (coq/templates/StateIRProofs.v.in): the translated functions are Runner.emit, Runner.check_abort and the
    last_fail update."""
    out = os.path.join(chk.workdir, "StateIR.v")
    tpl = os.path.join(common.COQ, "templates", "StateIRProofs.v.in")
    try:
        prog = pyir_state.generate(os.path.join(common.REPO, "src"), out, tpl)
    except pyir_translate.TranslationError as e:
        return {"ok": False, "stage": "translate", "detail": f"the state operations of the retry loop are outside the translated fragment: {e}"}
    except (OSError, SyntaxError) as e:
        return {"ok": False, "stage": "translate", "detail": f"redress/policy/state.py or runner/timeline.py could not be read: {e}"}
    rc, stdout, stderr, wall = common.run(["coqc", "-Q", common.THEORIES, "Redress", "-w", "none", out], 600, cwd=chk.workdir)
    if rc != 0:
        where = "StateIR.v"
        m = re.search(r"line (\d+)", stderr)
        if m:
            lines = open(out).read().split("\n")
            for k in range(int(m.group(1)) - 1, -1, -1):
                mm = re.match(r"\s*(Lemma|Theorem)\s+(\w+)", lines[k])
                if mm:
                    where = mm.group(2)
                    break
        return {"ok": False, "stage": "proof", "theorem": where,
                "detail": f"a translated state operation no longer proves equal to its Runner.v counterpart ({where}): {stderr.strip()[-500:]}",
                "ir": prog}
    return {"ok": True, "stage": "done", "theorems": STATE_THEOREMS, "closed_under_global_context": stdout.count("Closed under the global context"),
            "seconds": round(wall, 1), "functions": ["_RetryState.emit", "_RetryState.check_abort", "_RetryState.record_failure",
                                                     "runner/timeline.py: _resolve_timeline (the hook)"]}


def report(chk, tie, name, searched):
    """shared bookkeeping: coverage, obligations, and the violation when the tie is broken and nothing else was found"""
    key = "source_translation" if "source_translation" not in chk.coverage else f"source_translation_{name}"
    chk.coverage[key] = {k: v for k, v in tie.items() if k != "ir"}
    n = len(tie.get("theorems") or {"circuit": CIRCUIT_THEOREMS, "classify": CLASSIFY_THEOREMS, "failure": FAILURE_THEOREMS, "sleep": SLEEP_THEOREMS, "loop": LOOP_THEOREMS, "policy": POLICY_THEOREMS, "sugar": SUGAR_THEOREMS, "state": STATE_THEOREMS}.get(name, THEOREMS))
    chk.coverage["obligations"] = chk.coverage.get("obligations", 0) + n
    if tie["ok"]:
        chk.coverage["discharged"] = chk.coverage.get("discharged", 0) + n
        mod = {"circuit": "CircuitIR", "classify": "ClassifyIR", "failure": "FailureIR", "sleep": "SleepIR", "loop": "LoopIR", "policy": "PolicyIR", "sugar": "SugarIR", "state": "StateIR"}.get(name, "BudgetIR")
        chk.coverage["theorems"] = list(chk.coverage.get("theorems", [])) + [f"{mod}.{t}" for t in tie["theorems"]]
    elif not chk.violations:
        chk.violation({"kind": "source-translation", "what": tie["detail"], "stage": tie["stage"],
                       "theorem": tie.get("theorem", "fail-closed translator"), "ir": tie.get("ir"), "searched": searched}, no_input=True)


def runner_ties(chk, searched="scripted call sequences (random, abort sentinels and sweeps): no property violation found"):
    """every theorem about the retry loop is a theorem about Runner.run; four translations tie Runner.run to the source:
    _handle_failure = Runner.handle_failure (PyIRF), the sleep protocol = Runner.backoff (PyIRS), the loop bodies iterated =
    Runner.run given those two (PyIRL), and the state operations they all use: emit, check_abort, record_failure (PyIRE).  All four
    are regenerated and re-proved (concurrently) for each runner property."""
    from concurrent.futures import ThreadPoolExecutor
    with ThreadPoolExecutor(max_workers=5) as ex:
        # (the delegating layers too: the scripts reach the loop through RetryPolicy, the context managers, the decorator and from_config)
        futs = [(name, ex.submit(fn, chk)) for name, fn in (("failure", failure_tie), ("sleep", sleep_tie), ("loop", loop_tie), ("state", state_tie),
                                                            ("sugar", sugar_tie))]
        ties = [(name, f.result()) for name, f in futs]
    for name, tie in ties:
        report(chk, tie, name, searched)
