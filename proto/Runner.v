From Coq Require Import ZArith List Bool Lia ZifyBool.
Import ListNotations.
Open Scope Z_scope.

Inductive klass := AUTH | PERMISSION | PERMANENT | CONCURRENCY | RATE_LIMIT | SERVER_ERROR | TRANSIENT | UNKNOWN.
Definition klass_eqb (a b : klass) : bool :=
  match a, b with
  | AUTH, AUTH | PERMISSION, PERMISSION | PERMANENT, PERMANENT | CONCURRENCY, CONCURRENCY
  | RATE_LIMIT, RATE_LIMIT | SERVER_ERROR, SERVER_ERROR | TRANSIENT, TRANSIENT | UNKNOWN, UNKNOWN => true
  | _, _ => false
  end.
Lemma klass_eqb_spec a b : reflect (a = b) (klass_eqb a b).
Proof. destruct a, b; simpl; constructor; congruence. Qed.

Definition nonretryable k := match k with PERMANENT | AUTH | PERMISSION => true | _ => false end.

Inductive stop := S_GLOBAL | S_PERCLASS | S_DEADLINE | S_UNKNOWN | S_NONRETRY | S_NOSTRAT | S_BUDGET | S_SCHED | S_ABORT.
Inductive sval := SFin (z : Z) | SNaN | SPInf | SNInf.
Inductive hdec := HSleep | HDefer | HAbort.

Inductive outcome := OValue (v : nat) | OFail (exc : bool) (id : nat) (k : klass) | OAbort | OCancel.

Record cfg := {
  max_attempts : Z; deadline : Z; max_unknown : option Z;
  per_class : klass -> option Z; has_strat : klass -> bool; has_handler : bool }.

Record env := {
  op : nat -> outcome * Z;           (* attempt (0-based index) -> outcome, duration *)
  abort : nat -> bool;               (* poll index -> answer *)
  strat : nat -> sval;               (* attempt index -> strategy return *)
  budget_ok : nat -> bool;           (* attempt index -> budget grants *)
  handler : nat -> hdec;
  over : nat -> Z }.                 (* sleeper overshoot *)

Inductive ev :=
| EPoll (a : bool) | EInvoke (att : Z) (t : Z) (o : outcome)
| EStrat (att : Z) (k : klass) (prev : option Z) (rem : Z)
| EBudget (g : bool) | ERetry (att : Z) (d : Z) | EStop (att : Z) (s : stop) | ESuccess (att : Z)
| EHandler (att : Z) (d : Z) (h : hdec) | ESleep (d : Z) (t : Z).

Record rst := {
  now : Z; polls : nat; prev : option Z; unk : Z; cnt : klass -> Z }.

Definition bump (f : klass -> Z) k := fun k' => if klass_eqb k k' then f k' + 1 else f k'.

Inductive decision := DRetry (d : Z) | DRaise (s : stop).

Definition sanitize (s : sval) (rem : Z) : Z :=
  let v := match s with SFin z => z | _ => 0 end in Z.min (Z.max 0 v) rem.

(* handle_failure: returns decision, new state, trace chunk *)
Definition over_limit (c : cfg) (k : klass) (n : Z) : bool :=
  match per_class c k with Some l => l <? n | None => false end.
Definition over_unknown (c : cfg) (k : klass) (n : Z) : bool :=
  if klass_eqb k UNKNOWN then match max_unknown c with Some m => m <? n | None => false end else false.

Definition setc (s : rst) cnt' unk' prev' :=
  {| now := now s; polls := polls s; prev := prev'; unk := unk'; cnt := cnt' |}.

Definition handle_failure (c : cfg) (e : env) (i : nat) (att : Z) (k : klass) (s : rst)
  : decision * rst * list ev :=
  let cnt' := bump (cnt s) k in
  if over_limit c k (cnt' k) then (DRaise S_PERCLASS, setc s cnt' (unk s) (prev s), [EStop att S_PERCLASS]) else
  if nonretryable k then (DRaise S_NONRETRY, setc s cnt' (unk s) (prev s), [EStop att S_NONRETRY]) else
  let unk' := if klass_eqb k UNKNOWN then unk s + 1 else unk s in
  let s2 := setc s cnt' unk' (prev s) in
  if over_unknown c k unk' then (DRaise S_UNKNOWN, s2, [EStop att S_UNKNOWN]) else
  if deadline c <? now s then (DRaise S_DEADLINE, s2, [EStop att S_DEADLINE]) else
  if negb (has_strat c k) then (DRaise S_NOSTRAT, s2, [EStop att S_NOSTRAT]) else
  let rem := deadline c - now s in
  if rem <=? 0 then (DRaise S_DEADLINE, s2, [EStop att S_DEADLINE]) else
  if max_attempts c <=? att then (DRaise S_GLOBAL, s2, [EStop att S_GLOBAL]) else
  let d := sanitize (strat e i) rem in
  if negb (budget_ok e i) then (DRaise S_BUDGET, s2, [EStrat att k (prev s) rem; EBudget false; EStop att S_BUDGET]) else
  (DRetry d, setc s cnt' unk' (Some d), [EStrat att k (prev s) rem; EBudget true; ERetry att d]).

Inductive delivery := RValue (v : nat) | RFail (id : nat) (s : stop) | RAbort | RCancel | RNone.

Definition poll (e : env) (s : rst) : bool * rst :=
  (abort e (polls s), {| now := now s; polls := S (polls s); prev := prev s; unk := unk s; cnt := cnt s |}).
Definition advance (s : rst) (d : Z) : rst :=
  {| now := now s + d; polls := polls s; prev := prev s; unk := unk s; cnt := cnt s |}.

(* one iteration; i = 0-based attempt index. Returns inl (continue state) or inr delivery, with trace chunk *)
Definition iter (c : cfg) (e : env) (i : nat) (s : rst) : (rst + delivery) * list ev :=
  let att := Z.of_nat i + 1 in
  let '(a0, s) := poll e s in
  if a0 then (inr RAbort, [EPoll true; EStop (att-1) S_ABORT]) else
  let '(o, dur) := op e i in
  let t0 := now s in
  let s := advance s dur in
  match o with
  | OValue v => (inr (RValue v), [EPoll false; EInvoke att t0 o; ESuccess att])
  | OAbort => (inr RAbort, [EPoll false; EInvoke att t0 o; EStop att S_ABORT])
  | OCancel => (inr RCancel, [EPoll false; EInvoke att t0 o])
  | OFail _ id k =>
    let pre := [EPoll false; EInvoke att t0 o] in
    let '(a1, s) := poll e s in
    if a1 then (inr RAbort, pre ++ [EPoll true; EStop att S_ABORT]) else
    let '(dec, s, tr) := handle_failure c e i att k s in
    match dec with
    | DRaise r => (inr (RFail id r), pre ++ [EPoll false] ++ tr)
    | DRetry d =>
      let '(a2, s) := poll e s in
      if a2 then (inr RAbort, pre ++ [EPoll false] ++ tr ++ [EPoll true; EStop att S_ABORT]) else
      let h := if has_handler c then handler e i else HSleep in
      let htr := if has_handler c then [EHandler att d h] else [] in
      match h with
      | HDefer => (inr (RFail id S_SCHED), pre ++ [EPoll false] ++ tr ++ [EPoll false] ++ htr ++ [EStop att S_SCHED])
      | HAbort => (inr RAbort, pre ++ [EPoll false] ++ tr ++ [EPoll false] ++ htr ++ [EStop att S_ABORT])
      | HSleep =>
        let t1 := now s in
        let s := advance s (d + over e i) in
        let base := pre ++ [EPoll false] ++ tr ++ [EPoll false] ++ htr ++ [ESleep d t1] in
        if deadline c <? now s then (inr (RFail id S_DEADLINE), base ++ [EStop att S_DEADLINE]) else
        if att =? max_attempts c then (inr (RFail id S_GLOBAL), base ++ [EStop att S_GLOBAL]) else
        (inl s, base)
      end
    end
  end.

Fixpoint loop (c : cfg) (e : env) (fuel : nat) (i : nat) (s : rst) : delivery * list ev :=
  match fuel with
  | O => (RNone, [EStop (max_attempts c) S_GLOBAL])
  | S f => match iter c e i s with
           | (inr d, tr) => (d, tr)
           | (inl s', tr) => let '(d, tr') := loop c e f (S i) s' in (d, tr ++ tr')
           end
  end.

Definition init : rst := {| now := 0; polls := 0; prev := None; unk := 0; cnt := fun _ => 0 |}.
Definition run (c : cfg) (e : env) := loop c e (Z.to_nat (max_attempts c)) 0 init.

Definition is_invoke (x : ev) := match x with EInvoke _ _ _ => true | _ => false end.
Definition invokes tr := filter is_invoke tr.

Lemma invokes_app a b : invokes (a ++ b) = invokes a ++ invokes b.
Proof. apply filter_app. Qed.

Lemma hf_invokes c e i att k s dec s' tr' :
  handle_failure c e i att k s = (dec, s', tr') -> invokes tr' = [].
Proof.
  unfold handle_failure.
  repeat match goal with |- context [if ?b then _ else _] => destruct b end; intros H; inversion H; reflexivity.
Qed.

Ltac fin Hhf := intros H; inversion H; subst; clear H; rewrite ?invokes_app, ?Hhf; simpl; rewrite ?invokes_app, ?Hhf; simpl; try lia.

Lemma iter_invokes c e i s r tr : iter c e i s = (r, tr) -> (length (invokes tr) <= 1)%nat.
Proof.
  unfold iter. destruct (poll e s) as [a0 s0]. destruct a0; [fin I|].
  destruct (op e i) as [o dur]. destruct o; try solve [fin I].
  destruct (poll e (advance s0 dur)) as [a1 s1]. destruct a1; [fin I|].
  destruct (handle_failure c e i (Z.of_nat i + 1) k s1) as [[dec s2] tr2] eqn:E.
  pose proof (hf_invokes _ _ _ _ _ _ _ _ _ E) as Hhf.
  destruct dec; [|fin Hhf].
  destruct (poll e s2) as [a2 s3]. destruct a2; [fin Hhf|].
  destruct (has_handler c); [destruct (handler e i)|];
  repeat match goal with |- context [if ?b then _ else _] => destruct b end; fin Hhf.
Qed.

Theorem invocations_bounded c e : 
  (Z.of_nat (length (invokes (snd (run c e)))) <= Z.max 0 (max_attempts c)).
Proof.
  unfold run. 
  assert (G: forall fuel i s, (length (invokes (snd (loop c e fuel i s))) <= fuel)%nat).
  { induction fuel as [|f IH]; intros i s; simpl; [lia|].
    destruct (iter c e i s) as [[s'|d] tr] eqn:E.
    - specialize (IH (S i) s'). destruct (loop c e f (S i) s') as [d tr'] eqn:L. simpl in *.
      rewrite invokes_app, app_length. apply iter_invokes in E. lia.
    - simpl. apply iter_invokes in E. lia. }
  specialize (G (Z.to_nat (max_attempts c)) 0%nat init). lia.
Qed.
Print Assumptions invocations_bounded.

(* executable check *)
Definition e0 : env := {| op := fun i => (OFail true i TRANSIENT, 10); abort := fun _ => false; strat := fun _ => SFin 1000;
  budget_ok := fun _ => true; handler := fun _ => HSleep; over := fun _ => 0 |}.
Definition c0 : cfg := {| max_attempts := 3; deadline := 100000; max_unknown := Some 2; per_class := fun _ => None; has_strat := fun _ => true; has_handler := false |}.
Eval vm_compute in run c0 e0.

(* --- correspondence prototype --- *)
Definition nth_d {A} (l : list A) (d : A) (i : nat) := nth i l d.
Definition mkenv (ops : list (outcome * Z)) (ab : list bool) (st : list sval) (bu : list bool) (ha : list hdec) (ov : list Z) : env :=
  {| op := nth_d ops (OValue 0, 0); abort := nth_d ab false; strat := nth_d st (SFin 0);
     budget_ok := nth_d bu true; handler := nth_d ha HSleep; over := nth_d ov 0 |}.
Scheme Equality for positive. Scheme Equality for Z. Scheme Equality for klass. Scheme Equality for stop.
Scheme Equality for hdec. Scheme Equality for option. 
Definition ev_eq_dec : forall a b : ev, {a = b} + {a <> b}.
Proof. decide equality; try apply Z.eq_dec; try apply Bool.bool_dec; try (decide equality; try apply Z.eq_dec; try apply Nat.eq_dec; try apply Bool.bool_dec; decide equality).
       all: try (decide equality; apply Z.eq_dec). Defined.
Definition trace_eqb (a b : list ev) : bool := if list_eq_dec ev_eq_dec a b then true else false.
Definition is_proj (x : ev) := match x with EInvoke _ _ _ | ESleep _ _ | EStop _ _ | ERetry _ _ => true | _ => false end.
Fixpoint failing (n : nat) (cs : list (cfg * env * list ev)) : list nat :=
  match cs with [] => [] | (c, e, t) :: r =>
    (if trace_eqb (filter is_proj (snd (run c e))) (filter is_proj t) then [] else [n]) ++ failing (S n) r end.
