From Coq Require Import ZArith List Bool Lia Sorting.Sorted.
Import ListNotations.
Open Scope Z_scope.

(* deque pruning as in Budget._prune / CircuitBreaker._prune: pop from the left while t <= cutoff *)
Fixpoint prune (cut : Z) (l : list Z) : list Z :=
  match l with [] => [] | t :: r => if t <=? cut then prune cut r else l end.
Definition live (cut : Z) (l : list Z) : list Z := filter (fun t => cut <? t) l.
Definition sorted (l : list Z) := StronglySorted Z.le l.

Lemma filter_all_true {A} (f : A -> bool) l : (forall x, In x l -> f x = true) -> filter f l = l.
Proof. induction l as [|a r IH]; simpl; intros H; [reflexivity|]. rewrite (H a) by auto. f_equal. apply IH. auto. Qed.

Lemma prune_is_live cut l : sorted l -> prune cut l = live cut l.
Proof.
  induction 1 as [|t r Hs IH Hall]; simpl; [reflexivity|].
  destruct (t <=? cut) eqn:E.
  - replace (cut <? t) with false by lia. exact IH.
  - replace (cut <? t) with true by lia. f_equal. unfold live. symmetry. apply filter_all_true.
    intros x Hx. rewrite Forall_forall in Hall. specialize (Hall x Hx). lia.
Qed.

(* lazy pruning: a deque pruned at an earlier, smaller cutoff is observationally the full history *)
Lemma live_live c1 c2 l : c1 <= c2 -> live c2 (live c1 l) = live c2 l.
Proof.
  intros H. unfold live. induction l as [|t r IH]; simpl; [reflexivity|].
  destruct (c1 <? t) eqn:E1; simpl; destruct (c2 <? t) eqn:E2; simpl; try rewrite IH; auto. lia.
Qed.

Lemma sorted_live c l : sorted l -> sorted (live c l).
Proof.
  induction 1 as [|t r Hs IH Hall]; simpl; [constructor|].
  destruct (c <? t); [|exact IH]. constructor; [exact IH|].
  rewrite Forall_forall in *. intros x Hx. apply Hall. unfold live in Hx. apply filter_In in Hx. tauto.
Qed.

Lemma sorted_snoc l t : sorted l -> (forall x, In x l -> x <= t) -> sorted (l ++ [t]).
Proof.
  induction 1 as [|a r Hs IH Hall]; simpl; intros H; [repeat constructor|].
  constructor; [apply IH; auto|]. rewrite Forall_forall in *. intros x Hx. apply in_app_or in Hx as [Hx|[<-|[]]]; auto.
Qed.

(* Budget model *)
Record budget := { bmax : Z; bwin : Z; bev : list Z }.
Fixpoint repeatZ (n : nat) (t : Z) : list Z := match n with O => [] | S k => t :: repeatZ k t end.
Definition consume (b : budget) (now : Z) (cost : nat) : bool * budget :=
  let ev := prune (now - bwin b) (bev b) in
  if bmax b <? Z.of_nat (length ev) + Z.of_nat cost
  then (false, {| bmax := bmax b; bwin := bwin b; bev := ev |})
  else (true, {| bmax := bmax b; bwin := bwin b; bev := ev ++ repeatZ cost now |}).

(* history: list of (now, cost); grants: all granted token times, oldest first *)
Fixpoint run (b : budget) (h : list (Z * nat)) (grants : list Z) : budget * list Z * list bool :=
  match h with
  | [] => (b, grants, [])
  | (now, cost) :: r =>
    let '(ok, b') := consume b now cost in
    let '(bf, gf, outs) := run b' r (if ok then grants ++ repeatZ cost now else grants) in
    (bf, gf, ok :: outs)
  end.

Fixpoint mono (last : Z) (h : list (Z * nat)) : Prop :=
  match h with [] => True | (now, _) :: r => last <= now /\ mono now r end.

(* refinement invariant: the deque is the live part (w.r.t. the last cutoff used) of all grants *)
Definition Rep (b : budget) (grants : list Z) (last : Z) : Prop :=
  sorted grants /\ (forall x, In x grants -> x <= last) /\
  exists c, c <= last - bwin b /\ bev b = live c grants.

Lemma In_repeatZ n t x : In x (repeatZ n t) -> x = t.
Proof. induction n as [|k IH]; simpl; [contradiction|]. intros [H|H]; auto. Qed.
Lemma sorted_app_repeat l n t : sorted l -> (forall x, In x l -> x <= t) -> sorted (l ++ repeatZ n t).
Proof.
  intros Hs Hle. induction n as [|k IH]; simpl; [rewrite app_nil_r; exact Hs|].
  replace (l ++ t :: repeatZ k t) with ((l ++ [t]) ++ repeatZ k t) by (rewrite <- app_assoc; reflexivity).
  clear IH. revert l Hs Hle. induction k as [|k IH]; intros l Hs Hle; simpl.
  - rewrite app_nil_r. apply sorted_snoc; auto.
  - replace ((l ++ [t]) ++ t :: repeatZ k t) with (((l ++ [t]) ++ [t]) ++ repeatZ k t) by (rewrite <- !app_assoc; reflexivity).
    apply IH; [apply sorted_snoc; auto|]. intros x Hx. apply in_app_or in Hx as [Hx|[<-|[]]]; auto; lia.
Qed.

Lemma consume_spec b grants last now cost :
  0 < bwin b -> Rep b grants last -> last <= now ->
  let '(ok, b') := consume b now cost in
  let inwin := live (now - bwin b) grants in
  (ok = negb (bmax b <? Z.of_nat (length inwin) + Z.of_nat cost)) /\
  Rep b' (if ok then grants ++ repeatZ cost now else grants) now.
Proof.
  intros Hw (Hs & Hle & c & Hc & Hev) Hl. unfold consume.
  assert (E: prune (now - bwin b) (bev b) = live (now - bwin b) grants).
  { rewrite Hev. rewrite prune_is_live by (apply sorted_live; exact Hs). apply live_live. lia. }
  rewrite E. destruct (bmax b <? _) eqn:T; simpl; (split; [reflexivity|]).
  - split; [exact Hs|]. split; [intros x Hx; specialize (Hle x Hx); lia|].
    exists (now - bwin b). simpl. split; [lia|reflexivity].
  - split; [apply sorted_app_repeat; auto; intros x Hx; specialize (Hle x Hx); lia|].
    split. { intros x Hx. apply in_app_or in Hx as [Hx|Hx]; [specialize (Hle x Hx); lia| apply In_repeatZ in Hx; lia]. }
    exists (now - bwin b). simpl. split; [lia|].
    unfold live. rewrite filter_app. f_equal. symmetry. apply filter_all_true.
    intros x Hx. apply In_repeatZ in Hx. subst. lia.
Qed.
Print Assumptions consume_spec.
