import sys, asyncio
sys.path.insert(0,'/repo/src')
from redress import *
class Suspend:
    def __init__(self, tag): self.tag=tag
    def __await__(self):
        got = yield self.tag
        return got
trace=[]
def drive(coro, throw_at=None, exc=None):
    n=0
    try:
        y=coro.send(None)
        while True:
            trace.append(('suspended', y)); 
            if throw_at==n:
                n+=1; y=coro.throw(exc)
            else:
                n+=1; y=coro.send(None)
    except StopIteration as e:
        return ('value', e.value, n)
    except BaseException as e:
        return ('raised', type(e).__name__, n)
calls=[0]
async def op():
    calls[0]+=1
    await Suspend(('op',calls[0]))
    if calls[0]<3: raise TimeoutError()
    return 'ok'
async def sleeper(s):
    await Suspend(('sleep',s))
async def bs(ctx,s):
    await Suspend(('before_sleep',s))
def mk():
    calls[0]=0
    return AsyncPolicy(retry=AsyncRetry(classifier=default_classifier, strategy=lambda c:0.5, sleeper=sleeper, before_sleep=bs, max_attempts=4))
r=drive(mk().call(op)); print(r, trace)
for k in range(r[2]):
    trace.clear(); print(k, drive(mk().call(op), throw_at=k, exc=asyncio.CancelledError()), trace[-1])
