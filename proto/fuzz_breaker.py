import sys, random
sys.path.insert(0, sys.argv[1] if len(sys.argv)>1 else '/repo/src')
from redress import CircuitBreaker, ErrorClass, Budget
from redress.circuit import CircuitState
import redress.budget as bd
K=list(ErrorClass)
class Clk:
    t=0.0
    def __call__(self): return self.t
def spec_run(cfg, hist):
    """history-based reference: returns list of results"""
    thr,win,rto,trip,cthr=cfg
    state='closed'; opened=None; probe=False; epoch=[]  # (t,k) counted failures since last transition while closed
    out=[]
    for t,op,k in hist:
        if op=='allow':
            if state=='open':
                if t-opened>=rto: state='half_open'; probe=True; out.append((True,'half_open','circuit_half_open'))
                else: out.append((False,'open','circuit_rejected'))
            elif state=='half_open':
                if probe: out.append((False,'half_open','circuit_rejected'))
                else: probe=True; out.append((True,'half_open',None))
            else: out.append((True,'closed',None))
        elif op=='succ':
            if state=='half_open': state='closed'; opened=None; probe=False; epoch=[]; out.append('circuit_closed')
            else: out.append(None)
        elif op=='cancel':
            if state=='half_open': probe=False
            out.append(None)
        elif op=='fail':
            if state=='half_open': state='open'; opened=t; probe=False; epoch=[]; out.append('circuit_opened')
            elif state=='open': out.append(None)
            elif k not in trip: out.append(None)
            else:
                epoch.append((t,k))
                live=[(tt,kk) for tt,kk in epoch if t-tt<win]
                opens = len(live)>=thr or (k in cthr and len([1 for tt,kk in live if kk==k])>=cthr[k])
                if opens: state='open'; opened=t; epoch=[]; out.append('circuit_opened')
                else: out.append(None)
    return out, state
def impl_run(cfg,hist):
    thr,win,rto,trip,cthr=cfg
    c=Clk(); b=CircuitBreaker(failure_threshold=thr,window_s=float(win),recovery_timeout_s=float(rto),trip_on=set(trip),class_thresholds=dict(cthr),clock=c)
    out=[]
    for t,op,k in hist:
        c.t=float(t)
        if op=='allow':
            d=b.allow(); out.append((d.allowed,d.state.value,d.event))
        elif op=='succ': out.append(b.record_success())
        elif op=='cancel': out.append(b.record_cancel())
        else: out.append(b.record_failure(k))
    return out,b.state.value
rng=random.Random(int(sys.argv[2]) if len(sys.argv)>2 else 0)
bad=0; N=20000; opened=0
for n in range(N):
    thr=rng.choice([1,2,3,4]); win=rng.choice([1,2,3,5]); rto=rng.choice([1,2,4])
    trip=rng.sample(K, rng.randint(0,3)); cthr={k:rng.choice([1,2,3]) for k in K if rng.random()<0.15}
    trip_eff=set(trip)|set(cthr)
    t=0; hist=[]
    for i in range(rng.randint(1,14)):
        t+=rng.choice([0,0,1,1,2,win-1,win,win+1,rto-1,rto,rto+1])
        op=rng.choice(['allow','allow','succ','cancel','fail','fail','fail','fail'])
        hist.append((t,op,rng.choice(list(trip_eff) or K) if rng.random()<0.8 else rng.choice(K)))
    a=spec_run((thr,win,rto,trip_eff,cthr),hist); b=impl_run((thr,win,rto,trip,cthr),hist)
    opened+= 'circuit_opened' in b[0]
    if a!=b:
        bad+=1
        if bad<3: print('MISMATCH',(thr,win,rto,trip,cthr),hist,a,b)
print('breaker:',N,'histories',bad,'mismatches; opened in',opened)

# budget
import time as _t
bad=0; refused=0
for n in range(20000):
    mx=rng.choice([0,1,2,3,5]); win=rng.choice([1,2,3,5])
    now=[0.0]; bd.time=type('T',(),{'monotonic':staticmethod(lambda: now[0])})
    B=Budget(max_retries=mx,window_s=float(win)); grants=[]; t=0
    for i in range(rng.randint(1,14)):
        t+=rng.choice([0,0,1,1,win-1,win,win+1]); now[0]=float(t)
        if rng.random()<0.3:
            live=[g for g in grants if t-g<win]
            if B.remaining()!=max(mx-len(live),0): bad+=1
        else:
            cost=rng.choice([1,1,1,2,3])
            live=[g for g in grants if t-g<win]
            exp=len(live)+cost<=mx
            r=B.consume(cost)
            if r!=exp: bad+=1
            if r: grants+= [t]*cost
            else: refused+=1
    # window bound over half-open intervals
    for a in range(0,t+2):
        if len([g for g in grants if a<=g<a+win])>mx: bad+=1
print('budget: 20000 histories',bad,'mismatches; refused',refused)
