"""Rough random-script probe of the pinned tree with direct oracles for C01-C05, C11, C13-C16.
Prototype only (design phase)."""
import sys, random, math, time as _t
SRC = sys.argv[1] if len(sys.argv) > 1 else '/repo/src'
N = int(sys.argv[2]) if len(sys.argv) > 2 else 3000
SEED = int(sys.argv[3]) if len(sys.argv) > 3 else 0
sys.path.insert(0, SRC)

class VT:
    ticks = 0
    wall = 0.0
VTK = 64.0
def v_monotonic(): return VT.ticks / VTK
def v_time():
    VT.wall = random.uniform(-1e9, 1e9); return VT.wall
def v_sleep(s): raise AssertionError('real time.sleep reached')
_t.monotonic = v_monotonic; _t.time = v_time; _t.sleep = v_sleep
import redress
from redress import *
from redress.sleep import SleepDecision
from redress.classify import Classification

K = list(ErrorClass)
NONRETRY = {ErrorClass.PERMANENT, ErrorClass.AUTH, ErrorClass.PERMISSION}
class OpErr(Exception):
    def __init__(self, i, cls): self.i = i; self.cls = cls
class HookErr(Exception): pass

def gen(rng):
    s = {}
    s['max_attempts'] = rng.choice([1, 1, 2, 3, 3, 4, 5, 6])
    s['deadline'] = rng.choice([0, 1, 5, 20, 50, 200, 1000, 100000])
    s['max_unknown'] = rng.choice([None, 0, 1, 2, 2, 3])
    s['per_class'] = {k: rng.choice([0, 1, 2, 3]) for k in K if rng.random() < 0.25}
    s['strategies'] = {k: ('S_' + k.name) for k in K if rng.random() < 0.3}
    s['default'] = 'S_default' if (rng.random() < 0.85 or not s['strategies']) else None
    s['budget'] = rng.choice([None, None, (0, 10), (1, 10), (2, 10), (3, 5)])
    n = 8
    ops = []
    for i in range(n):
        r = rng.random()
        k = rng.choice(K if rng.random() < 0.5 else [ErrorClass.TRANSIENT, ErrorClass.UNKNOWN, ErrorClass.RATE_LIMIT])
        dur = rng.choice([0, 0, 1, 2, 5, 19, 20, 21, 49, 50, 51])
        ra = rng.choice([None, None, 0.5, 3.0])
        if r < 0.18: ops.append(('value', None, dur))
        elif r < 0.55: ops.append(('exc', (k, ra, rng.random() < 0.5), dur))
        elif r < 0.85: ops.append(('res', (k, ra, rng.random() < 0.5), dur))
        elif r < 0.90: ops.append(('abort', None, dur))
        elif r < 0.94: ops.append(('cancel', rng.choice(['KI', 'SE', 'CE']), dur))
        else: ops.append(('value', None, dur))
    s['ops'] = ops
    s['abort'] = [rng.random() < 0.04 for _ in range(40)] if rng.random() < 0.5 else None
    s['strat_out'] = [rng.choice([0, 1, 2, 5, 10, 30, 100, 10**6, -3, 'nan', 'inf', '-inf']) for _ in range(n)]
    s['handler'] = [rng.choice(['sleep'] * 6 + ['defer', 'abort']) for _ in range(n)] if rng.random() < 0.4 else None
    s['over'] = [rng.choice([0, 0, 0, 1, 3, 30]) for _ in range(n)]
    s['before_sleep'] = rng.random() < 0.5
    s['hook_faults'] = rng.choice([None, 'metric', 'log', 'bs', 'all'])
    s['operation'] = rng.choice([None, 'op'])
    s['timeline'] = rng.random() < 0.5
    return s

def fl(x):
    if x == 'nan': return math.nan
    if x == 'inf': return math.inf
    if x == '-inf': return -math.inf
    return x / VTK
def ticks(x):
    v = x * VTK
    assert v == int(v), ('off grid', x)
    return int(v)

def run(s, mode, asyn=False):
    VT.ticks = 1000
    tr = []
    st = {'n': 0, 'polls': 0}
    t0 = VT.ticks
    excs = {}
    vals = {}
    def op():
        i = st['n']; st['n'] += 1
        kind, arg, dur = s['ops'][i]
        tr.append(('invoke', i + 1, VT.ticks - t0, kind, arg[0].name if kind in ('exc','res') else None))
        VT.ticks += dur
        if kind == 'value':
            v = object(); vals[i] = v; return v
        if kind == 'res':
            v = object(); vals[i] = v; return v
        if kind == 'exc':
            e = OpErr(i, arg); excs[i] = e; raise e
        if kind == 'abort': raise AbortRetryError()
        if kind == 'cancel':
            import asyncio
            e = {'KI': KeyboardInterrupt, 'SE': SystemExit, 'CE': asyncio.CancelledError}[arg](); excs[i] = e; raise e
    def mkcls(arg):
        k, ra, as_enum = arg
        if as_enum and ra is None: return k
        return Classification(klass=k, retry_after_s=ra)
    def classifier(e):
        if not isinstance(e, OpErr):
            import traceback; tr.append(('classify-foreign', repr(e), ''.join(traceback.format_tb(e.__traceback__)[-2:])))
        tr.append(('classify', e.i)); return mkcls(e.cls)
    def result_classifier(v):
        for i, vv in vals.items():
            if vv is v:
                kind, arg, _ = s['ops'][i]
                return None if kind == 'value' else mkcls(arg)
        raise AssertionError
    def mkstrat(name):
        def f(ctx):
            i = ctx.attempt - 1
            tr.append(('strat', name, ctx.attempt, ctx.klass.name, ctx.classification.retry_after_s,
                       None if ctx.prev_sleep_s is None else ticks(ctx.prev_sleep_s), ticks(ctx.remaining_s), ctx.cause))
            return fl(s['strat_out'][i])
        return f
    faults = s['hook_faults']
    def on_metric(ev, a, sl, tags):
        tr.append(('metric', ev, a, ticks(sl), tuple(sorted(tags.items()))))
        if faults in ('metric', 'all'): raise HookErr()
    def on_log(ev, fields):
        f = dict(fields); f.pop('retry_after_s', None)
        tr.append(('log', ev, f.pop('attempt'), ticks(f.pop('sleep_s')), tuple(sorted(f.items()))))
        if faults in ('log', 'all'): raise HookErr()
    def abort_if():
        i = st['polls']; st['polls'] += 1
        a = s['abort'][i]; tr.append(('poll', a)); return a
    def handler(ctx, sl):
        d = s['handler'][ctx.attempt - 1]; tr.append(('handler', ctx.attempt, ticks(sl), d))
        return SleepDecision(d)
    def before_sleep(ctx, sl):
        tr.append(('before_sleep', ticks(sl)))
        if faults in ('bs', 'all'): raise HookErr()
    def sleeper(sl):
        tr.append(('sleep', ticks(sl), VT.ticks - t0))
        VT.ticks += ticks(sl) + s['over'][st['n'] - 1]
    class SpyBudget(Budget):
        def consume(self, cost=1):
            r = super().consume(cost); tr.append(('budget', r)); return r
    budget = SpyBudget(max_retries=s['budget'][0], window_s=s['budget'][1] / VTK) if s['budget'] else None
    r = Retry(classifier=classifier, result_classifier=result_classifier,
              strategy=mkstrat(s['default']) if s['default'] else None,
              strategies={k: mkstrat(n) for k, n in s['strategies'].items()},
              deadline_s=s['deadline'] / VTK, max_attempts=s['max_attempts'], max_unknown_attempts=s['max_unknown'],
              per_class_max_attempts=s['per_class'], budget=budget)
    kw = dict(on_metric=on_metric, on_log=on_log, operation=s['operation'], sleeper=sleeper)
    if s['abort']: kw['abort_if'] = abort_if
    if s['handler']: kw['sleep'] = handler
    if s['before_sleep']: kw['before_sleep'] = before_sleep
    try:
        if mode == 'call':
            v = r.call(op, **kw); res = ('return', [i for i, vv in vals.items() if vv is v])
        else:
            o = r.execute(op, capture_timeline=s['timeline'], **kw); res = ('outcome', o)
    except OpErr as e: res = ('raise_op', e.i, e is excs.get(e.i))
    except RetryExhaustedError as e: res = ('exhausted', e)
    except AbortRetryError: res = ('abort',)
    except (KeyboardInterrupt, SystemExit) as e: res = ('cancel', type(e).__name__, any(e is x for x in excs.values()))
    except BaseException as e:
        import asyncio
        if isinstance(e, asyncio.CancelledError): res = ('cancel', type(e).__name__, any(e is x for x in excs.values()))
        else: res = ('other', type(e).__name__, str(e)[:80])
    return tr, res, vals, excs

def oracle(s, tr, res, mode, vals, excs):
    errs = []
    inv = [e for e in tr if e[0] == 'invoke']
    sleeps = [e for e in tr if e[0] == 'sleep']
    # C01
    if len(inv) > max(0, s['max_attempts']): errs.append('C01 invocations > max_attempts')
    for j, e in enumerate(inv):
        if e[3] in ('exc', 'res') and ErrorClass[e[4]] in NONRETRY and j + 1 < len(inv): errs.append('C01 invoke after nonretryable')
    for k in K:
        lim = s['per_class'].get(k)
        retr = sum(1 for j, e in enumerate(inv) if e[3] in ('exc', 'res') and e[4] == k.name and j + 1 < len(inv))
        if lim is not None and retr > lim: errs.append(f'C01 per-class {k.name} {retr}>{lim}')
        if k is ErrorClass.UNKNOWN and s['max_unknown'] is not None and retr > s['max_unknown']: errs.append('C01 unknown cap')
    # C02
    for e in inv[1:]:
        if e[2] > s['deadline']: errs.append(f'C02 attempt starts after deadline {e}')
    for e in sleeps:
        if e[1] > s['deadline'] - e[2] or e[1] < 0: errs.append(f'C02 sleep exceeds remaining {e}')
    if sum(e[1] for e in sleeps) > max(0, s['deadline']): errs.append('C02 total sleep > deadline')
    # C03: every sleep followed by invoke unless deadline passed during sleep / abort poll true after
    idx = {id(e): i for i, e in enumerate(tr)}
    for e in sleeps:
        i = idx[id(e)]
        rest = tr[i + 1:]
        if not any(x[0] == 'invoke' for x in rest):
            after = e[2] + e[1] + s['over'][[x for x in tr[:i] if x[0] == 'invoke'][-1][1] - 1]
            aborted = any(x[0] == 'poll' and x[1] for x in rest)
            lastatt = [x for x in tr[:i] if x[0] == 'invoke'][-1][1]
            if not (after > s['deadline'] or aborted): errs.append('C03 wasted backoff ' + ('final-attempt' if lastatt == s['max_attempts'] else 'OTHER') + f' {e} after={after}')
    # budget token / retry event with no following attempt and no later reason
    # C14 grammar
    for sink in ('metric', 'log'):
        evs = [e for e in tr if e[0] == sink]
        names = [e[1] for e in evs]
        ended_normally = res[0] in ('return', 'outcome', 'raise_op', 'exhausted', 'abort')
        if ended_normally:
            k = 0
            while k < len(names) and names[k] == 'retry': k += 1
            if len(names) - k != 1: errs.append(f'C14 {sink} grammar {names}')
            for j in range(k):
                if evs[j][2] != j + 1: errs.append(f'C14 retry index {names} {[e[2] for e in evs]}')
    m = [e[1:] for e in tr if e[0] == 'metric']; l = [e[1:] for e in tr if e[0] == 'log']
    if m != l: errs.append('C14 metric/log differ')
    # C05: retry sleep == sanitized strategy output, same as sleeper arg
    strats = [e for e in tr if e[0] == 'strat']
    retries = [e for e in tr if e[0] == 'metric' and e[1] == 'retry']
    prev = None
    for e in retries:
        a = e[2]
        sc = [x for x in strats if x[2] == a]
        if len(sc) != 1: errs.append('C05 strat calls per retry != 1'); continue
        sc = sc[0]
        kname = sc[3]
        exp_name = s['strategies'].get(ErrorClass[kname], s['default'])
        if sc[1] != exp_name: errs.append('C05 wrong strategy')
        raw = s['strat_out'][a - 1]
        rawv = 0 if isinstance(raw, str) else raw
        exp = min(max(0, rawv), sc[6])
        if e[3] != exp: errs.append(f'C05 delay {e[3]} != {exp}')
        if sc[5] != prev: errs.append(f'C05 prev_sleep {sc[5]} != {prev}')
        prev = e[3]
    for a in set(x[2] for x in strats):
        if sum(1 for x in strats if x[2] == a) > 1: errs.append('C05 strategy called twice')
    # C13: nothing after abort poll true
    for i, e in enumerate(tr):
        if e[0] == 'poll' and e[1]:
            if any(x[0] in ('invoke', 'sleep', 'budget', 'strat') for x in tr[i + 1:]): errs.append('C13 activity after abort')
            if res[0] not in ('abort',) and not (res[0] == 'outcome' and res[1].stop_reason is StopReason.ABORTED): errs.append(f'C13 abort result {res[0]}')
    # C16
    if s['handler']:
        for e in [x for x in tr if x[0] == 'handler']:
            i = idx[id(e)]; nxt = [x for x in tr[i + 1:] if x[0] in ('sleep', 'before_sleep', 'invoke')]
            if e[3] == 'sleep':
                want = (['before_sleep'] if s['before_sleep'] else []) + ['sleep']
                if [x[0] for x in nxt[:len(want)]] != want: errs.append(f'C16 sleep protocol {nxt[:3]}')
            elif nxt: errs.append(f'C16 {e[3]} followed by {nxt[0]}')
        pre = sum(1 for e in retries if (lambda nx: nx and nx[0][0]=='poll' and nx[0][1])([x for x in tr[idx[id(e)]+1:] if x[0]!='log'][:1]))
        if len([x for x in tr if x[0] == 'handler']) != len(retries) - pre: errs.append('C16 handler calls != retries')
    # C11 / C04
    last = inv[-1] if inv else None
    if res[0] == 'outcome':
        o = res[1]
        if o.attempts != len(inv): errs.append(f'C11 attempts {o.attempts} != {len(inv)}')
        ok_expected = last is not None and last[3] == 'value' and not any(e[0]=='poll' and e[1] for e in tr)
        if o.ok != ok_expected: errs.append('C11 ok')
        term = [e for e in tr if e[0] == 'metric' and e[1] != 'retry']
        if not o.ok:
            if o.stop_reason is None: errs.append('C11 stop_reason None')
            tag = dict(term[-1][4]).get('stop_reason') if term else None
            if o.stop_reason is not None and tag != o.stop_reason.value: errs.append(f'C14 terminal tag {tag} != {o.stop_reason}')
            fails = [e for e in inv if e[3] in ('exc', 'res') and not (lambda nx: nx and nx[0][0]=='poll' and nx[0][1])(tr[idx[id(e)]+1:idx[id(e)]+2])]
            if fails:
                lf = fails[-1]
                if o.last_class is None or o.last_class.name != lf[4]: errs.append('C11 last_class')
                if o.cause != {'exc': 'exception', 'res': 'result'}[lf[3]]: errs.append('C11 cause')
                if lf[3] == 'exc' and (o.last_exception is not excs[lf[1] - 1] or o.last_result is not None): errs.append('C11 last_exception')
                if lf[3] == 'res' and (o.last_result is not vals[lf[1] - 1] or o.last_exception is not None): errs.append('C11 last_result')
            else:
                if (o.last_class, o.cause, o.last_exception, o.last_result) != (None,) * 4: errs.append('C11 fields set without failure')
            if (o.next_sleep_s is not None) != (o.stop_reason is StopReason.SCHEDULED): errs.append('C11 next_sleep_s')
        if o.timeline is not None:
            tl = [(e.event, e.attempt, ticks(e.sleep_s)) for e in o.timeline.events]
            if tl != [(e[1], e[2], e[3]) for e in tr if e[0] == 'metric']: errs.append('C14 timeline differs')
    if res[0] == 'raise_op':
        if not res[2]: errs.append('C04 not same object')
        if last[3] != 'exc' or last[1] - 1 != res[1]: errs.append('C04 raised exception not from last attempt')
    if res[0] == 'exhausted':
        e = res[1]
        if e.attempts != len(inv): errs.append('C04 attempts')
        if e.last_class.name != last[4]: errs.append('C04 last_class')
        if last[3] == 'res' and (e.last_result is not vals[last[1] - 1] or e.last_exception is not None): errs.append('C04 last_result')
        if last[3] == 'exc' and (e.last_exception is not excs[last[1] - 1] or e.stop_reason is not StopReason.SCHEDULED): errs.append('C04 exc exhausted')
        if (e.next_sleep_s is not None) != (e.stop_reason is StopReason.SCHEDULED): errs.append('C04 next_sleep')
    if res[0] == 'return':
        if last[3] != 'value' or res[1] != [last[1] - 1]: errs.append('C04 return')
    if res[0] == 'cancel' and not res[2]: errs.append('C13 cancel not same object')
    if res[0] == 'other': errs.append('XX other exception ' + res[1] + ' ' + res[2])
    return errs

def strip(tr): return [e for e in tr]
rng = random.Random(SEED)
from collections import Counter
found = Counter(); examples = {}; stops = Counter()
for n in range(N):
    s = gen(rng)
    outs = {}
    for mode in ('call', 'execute'):
        tr, res, vals, excs = run(s, mode)
        outs[mode] = (tr, res)
        for e in oracle(s, tr, res, mode, vals, excs):
            key = e.split(' ')[0] + ' ' + ' '.join(e.split(' ')[1:4])
            found[key] += 1; examples.setdefault(key, (e, s, mode))
        if res[0] == 'outcome': stops[str(res[1].stop_reason)] += 1
    # C12 call vs execute trace
    if outs['call'][0] != outs['execute'][0]:
        found['C12 call/execute trace differ'] += 1; examples.setdefault('C12 call/execute trace differ', (None, s, None))
    # C15: silent hooks vs faulty hooks
    if s['hook_faults']:
        s2 = dict(s); s2['hook_faults'] = None
        tr2, res2, _, _ = run(s2, 'execute')
        if tr2 != outs['execute'][0]:
            found['C15 trace differs with faulty hooks'] += 1; examples.setdefault('C15 trace differs with faulty hooks', (None, s, None))
print(N, 'scripts; stop reasons:', dict(stops))
for k, v in found.most_common(): print(v, k, '|', examples[k][0])
