"""Probe of Policy-level breaker interactions (C07 sequential, C09, C14 breaker events) on random scripts."""
import sys, random, asyncio
SRC = sys.argv[1] if len(sys.argv) > 1 else '/repo/src'
sys.path.insert(0, SRC)
from redress import *
from redress.circuit import CircuitState
from redress.classify import Classification
K = list(ErrorClass)
class OpErr(Exception):
    def __init__(self, k): self.k = k
class Clk:
    t = 0.0
    def __call__(self): return self.t
class Spy:
    def __init__(self, b, log): self.b = b; self.log = log
    @property
    def state(self): return self.b.state
    def allow(self):
        d = self.b.allow(); self.log.append(('allow', d.allowed, d.state.value, d.event)); return d
    def record_success(self):
        r = self.b.record_success(); self.log.append(('success', r)); return r
    def record_failure(self, k):
        r = self.b.record_failure(k); self.log.append(('failure', k.name, r)); return r
    def record_cancel(self):
        r = self.b.record_cancel(); self.log.append(('cancel',)); return r
rng = random.Random(int(sys.argv[2]) if len(sys.argv) > 2 else 0)
from collections import Counter
found = Counter(); ex = {}
def note(k, info):
    found[k] += 1; ex.setdefault(k, info)
N = 6000
for n in range(N):
    clk = Clk()
    b = CircuitBreaker(failure_threshold=rng.choice([1, 2, 3]), window_s=rng.choice([2.0, 5.0]), recovery_timeout_s=rng.choice([1.0, 3.0]),
                       trip_on=set(rng.sample(K, 3)), clock=clk)
    log = []; spy = Spy(b, log)
    with_retry = rng.random() < 0.7
    mets = []
    for call in range(rng.randint(1, 8)):
        clk.t += rng.choice([0, 0, 1, 2, 3, 5])
        script = [rng.choice(['value'] + ['exc'] * 3 + ['res'] * 2 + ['abort']) for _ in range(4)]
        ks = [rng.choice(K) for _ in range(4)]
        st = {'n': 0}; vals = {}
        def op():
            i = st['n']; st['n'] += 1
            if script[i] == 'exc': raise OpErr(ks[i])
            if script[i] == 'abort': raise AbortRetryError()
            v = object(); vals[id(v)] = i; return v
        def rc(v):
            i = vals[id(v)]; return ks[i] if script[i] == 'res' else None
        abort_at = rng.choice([None] * 6 + [0, 1, 2])
        polls = {'n': 0}
        def abort_if():
            p = polls['n']; polls['n'] += 1; return abort_at is not None and p >= abort_at
        retry = Retry(classifier=lambda e: e.k if isinstance(e, OpErr) else default_classifier(e), result_classifier=rc, strategy=lambda c: 0.0,
                      max_attempts=rng.choice([1, 2, 3]), sleeper=lambda s: None, max_unknown_attempts=None) if with_retry else None
        if not with_retry:
            script = [s if s != 'res' else 'value' for s in script]
        pol = Policy(retry=retry, circuit_breaker=spy)
        mode = rng.choice(['call', 'execute'])
        before = len(log); state_before = b.state
        mets.clear()
        kw = dict(on_metric=lambda ev, a, s, t: mets.append((ev, a, s, dict(t))), abort_if=abort_if)
        try:
            if mode == 'call': r = ('return', pol.call(op, **kw))
            else: r = ('outcome', pol.execute(op, **kw))
        except OpErr as e: r = ('raise', e.k)
        except RetryExhaustedError as e: r = ('exhausted', e.last_class)
        except AbortRetryError: r = ('abort',)
        except CircuitOpenError: r = ('open',)
        ops = log[before:]
        allows = [o for o in ops if o[0] == 'allow']; recs = [o for o in ops if o[0] != 'allow']
        info = (with_retry, mode, script[:st['n']], [k.name for k in ks[:st['n']]], abort_at, ops, r if r[0] != 'outcome' else (r[1].ok, r[1].stop_reason, r[1].last_class, r[1].attempts))
        preflight = (not with_retry) and abort_at == 0
        if preflight:
            if ops != [('cancel',)]: note('preflight abort ops differ', info)
            continue
        if len(allows) != 1: note('C09 allow count', info); continue
        if not allows[0][1]:
            if recs: note('C07 record after rejection', info)
            if st['n']: note('C07 op invoked when rejected', info)
            if not (r == ('open',) or (r[0] == 'outcome' and r[1].attempts == 0 and not r[1].ok)): note('C07 rejection delivery', info)
            continue
        if len(recs) != 1: note(f'C09 records {len(recs)}', info); continue
        rec = recs[0]
        # expected kind
        if r[0] == 'return' or (r[0] == 'outcome' and r[1].ok): exp = 'success'
        elif r[0] == 'abort' or (r[0] == 'outcome' and r[1].stop_reason is StopReason.ABORTED): exp = 'cancel'
        else: exp = 'failure'
        if rec[0] != exp: note(f'C09 kind {rec[0]} != {exp}', info)
        if exp == 'failure':
            lastk = ks[st['n'] - 1].name if with_retry else default_classifier(OpErr(None)).name
            if rec[1] != lastk: note('C09 class', info)
        # breaker events: attempt 0
        for ev in mets:
            if ev[0].startswith('circuit_') and (ev[1] != 0 or ev[2] != 0.0 or 'state' not in ev[3]): note('C14 breaker event shape', info)
print(N, 'policies')
for k, v in found.most_common(): print(v, k, '|', ex[k])
