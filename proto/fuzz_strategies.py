import sys, random, math
sys.path.insert(0, sys.argv[1] if len(sys.argv)>1 else '/repo/src')
import redress.strategies as S
from redress.strategies import *
from redress import ErrorClass
from redress.classify import Classification
rng=random.Random(0)
draw=[0.0]
S.random.uniform=lambda a,b: a+(b-a)*draw[0]
def floats():
    return rng.choice([0.0, 5e-324, 1e-310, 1e-300, 1e-9, 0.1, 0.25, 1.0, 3.0, 30.0, 1e6, 1e300, 1.7e308, rng.uniform(0,100), rng.uniform(0,1e-3)])
viol={}
def chk(name, cond, info):
    if not cond: viol.setdefault(name, []).append(info)
N=200000
for n in range(N):
    a=floats(); b=floats(); base,mx=min(a,b),max(a,b)
    att=rng.choice([1,2,3,5,8,20,52,53,64,100,1000,1023,1024,1074,1075,1750,1751,2000,10**6,10**30])
    prev=rng.choice([None,0.0,floats(),floats()])
    draw[0]=rng.choice([0.0, 1-2**-53, 0.5, rng.random()])
    tol=lambda x: 4*math.ulp(x) if x>0 else 0.0
    try:
        v=decorrelated_jitter(base,mx)(att,ErrorClass.TRANSIENT,prev)
        chk('decor', math.isfinite(v) and 0<=v<=mx, (base,mx,att,prev,draw[0],v))
    except Exception as e: chk('decor raises', False, (base,mx,att,prev,repr(e)))
    for nm,f,g in (('equal',equal_jitter,2.0),('token',token_backoff,1.5)):
        try:
            v=f(base,mx)(att,ErrorClass.TRANSIENT,prev)
            # real cap via exact rational arithmetic
            from fractions import Fraction as Fr
            if att<=3000:
                cap=min(Fr(mx), Fr(base)*Fr(g)**att)
                capf=float(cap)
                lo=capf/2; hi=capf
                rel=1e-12 if nm=='token' and att>33 else 0
                chk(nm+' envelope', lo*(1-rel)-tol(lo)-5e-324 <= v <= hi*(1+rel)+tol(hi)+5e-324, (base,mx,att,draw[0],v,lo,hi))
            else:
                chk(nm+' envelope big', (v==0 if base==0 else (mx/2-tol(mx)<=v<=mx)), (base,mx,att,v))
        except Exception as e: chk(nm+' raises', False, (base,mx,att,repr(e)))
    # retry_after_or
    ra=rng.choice([None, 0.0, 1.5, -2.0, math.nan, math.inf, -math.inf, 1e308, 1.7e308])
    rem=rng.choice([None, 0.0, 0.5, 10.0])
    jit=rng.choice([0.0,0.25,-1.0,1e308, math.inf, math.nan])
    fb=rng.choice([0.0,2.0,-1.0,math.nan,math.inf])
    try:
        ctx=BackoffContext(attempt=att,classification=Classification(ErrorClass.RATE_LIMIT,retry_after_s=ra),prev_sleep_s=prev,remaining_s=rem,cause='exception')
        v=retry_after_or(lambda c: fb, jitter_s=jit)(ctx)
        chk('rao', math.isfinite(v) and v>=0 and (rem is None or v<=rem), (ra,rem,jit,fb,draw[0],v))
        if ra is not None and math.isfinite(ra) and math.isfinite(jit) and jit>=0 and rem is None and ra+jit<1e308:
            chk('rao honoured', max(0,ra) <= v <= max(0,ra)+jit, (ra,jit,v))
    except Exception as e: chk('rao raises', False, (ra,rem,jit,fb,repr(e)))
for k,v in viol.items(): print(len(v), k, v[:3])
print('done',N)
