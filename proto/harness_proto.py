import sys, types
sys.path.insert(0, sys.argv[1] if len(sys.argv)>1 else '/repo/src')
import redress, time as real_time
from redress import *
import redress.policy.state as st, redress.policy.retry_helpers as rh, redress.policy.execution as ex, redress.policy.runner.timeline as tl, redress.budget as bd

class VClock:
    def __init__(self): self.us=0; self.wall=1e9
    def monotonic(self): return self.us/1e6
    def time(self): self.wall += 12345.678; return self.wall*(-1 if int(self.wall)%2 else 1)
    def sleep(self, s): raise AssertionError("real sleep used")
    def __getattr__(self, n): return getattr(real_time, n)
clk = VClock()
for m in (st, rh, ex, tl, bd): m.time = clk

trace=[]
class E(Exception):
    def __init__(self,i,k): self.i=i; self.k=k
script=[('fail',ErrorClass.TRANSIENT,10)]*3
n=[0]
def op():
    i=n[0]; n[0]+=1
    kind,k,dur=script[i]
    trace.append(('invoke',i+1,clk.us))
    clk.us+=dur
    raise E(i,k)
def sleeper(s):
    us=round(s*1e6); trace.append(('sleep',us,clk.us)); clk.us+=us
def strat(ctx):
    trace.append(('strat',ctx.attempt,ctx.klass.name,None if ctx.prev_sleep_s is None else round(ctx.prev_sleep_s*1e6),round(ctx.remaining_s*1e6)))
    return 1000/1e6
polls=[0]
def abort_if():
    trace.append(('poll',False)); return False
r=Retry(classifier=lambda e:e.k, strategy=strat, max_attempts=3, deadline_s=100000/1e6, sleeper=sleeper)
try:
    r.call(op, abort_if=abort_if, on_metric=lambda ev,a,s,t: trace.append(('metric',ev,a,round(s*1e6),t.get('stop_reason'))))
except E as e: trace.append(('raised',e.i))
for t in trace: print(t)
