# feasibility probe: line-level controlled scheduler over CircuitBreaker with cooperative lock
import sys, threading, itertools
sys.path.insert(0, sys.argv[1] if len(sys.argv)>1 else '/repo/src')
from redress import CircuitBreaker, ErrorClass
import redress.circuit as circ
TARGET = circ.__file__

class Sched:
    def __init__(self, choices):
        self.choices=list(choices); self.pos=0; self.trace=[]
        self.cv=threading.Condition(); self.current=None; self.threads={}; self.blocked=set(); self.done=set()
        self.branch=[]  # number of runnable options at each decision
    def runnable(self): return [t for t in sorted(self.threads) if t not in self.done and t not in self.blocked]
    def pick(self):
        r=self.runnable()
        if not r:
            self.current=None; return
        if len(r)==1: c=r[0]
        else:
            if self.current in r: r=[self.current]+[x for x in r if x!=self.current]
            i=self.choices[self.pos] if self.pos<len(self.choices) else 0
            self.pos+=1; self.branch.append(len(r)); c=r[i % len(r)]
        self.current=c; self.trace.append(c)
    def yield_(self, tid):
        with self.cv:
            self.pick(); self.cv.notify_all()
            while self.current!=tid:
                if self.current is None and tid in self.blocked: raise RuntimeError('deadlock')
                self.cv.wait()
    def finish(self, tid):
        with self.cv:
            self.done.add(tid); self.pick(); self.cv.notify_all()

class CoopLock:
    def __init__(self, s): self.s=s; self.held=None
    def __enter__(self):
        tid=threading.current_thread().name
        while self.held is not None:
            self.s.blocked.add(tid); self.s.yield_(tid)
        self.held=tid
    def __exit__(self,*a):
        self.held=None; self.s.blocked.clear()

def run(choices, progs, mk):
    s=Sched(choices); obj=mk(); obj._lock=CoopLock(s); results={}
    def tracer(frame, event, arg):
        if frame.f_code.co_filename!=TARGET: return None
        def local(frame,event,arg):
            if event=='line': s.yield_(threading.current_thread().name)
            return local
        return local
    def body(tid, ops):
        with s.cv:
            while s.current!=tid: s.cv.wait()
        sys.settrace(tracer)
        try: results[tid]=[op(obj) for op in ops]
        finally:
            sys.settrace(None); s.finish(tid)
    ths=[threading.Thread(target=body,args=(f't{i}',p),name=f't{i}') for i,p in enumerate(progs)]
    for t in ths: s.threads[t.name]=t
    for t in ths: t.start()
    with s.cv: s.pick(); s.cv.notify_all()
    for t in ths: t.join()
    return results, s.branch, obj

class Clk:
    t=10.0
    def __call__(self): return self.t
def mk():
    c=Clk(); b=CircuitBreaker(failure_threshold=1, window_s=10, recovery_timeout_s=5, clock=c)
    c.t=0.0; b.record_failure(ErrorClass.TRANSIENT); c.t=10.0
    return b
progs=[[lambda b: b.allow().allowed],[lambda b: b.allow().allowed]]
# DFS over schedules
import time; T0=time.time(); BOUND=2; seen=set(); stack=[[]]; n=0
while stack:
    ch=stack.pop(); res,branch,obj=run(ch,progs,mk); n+=1
    seen.add((tuple(res['t0']),tuple(res['t1']),obj._state.value,obj._probe_in_flight))
    if sum(1 for x in ch if x)>=BOUND: continue
    for i in range(len(ch),len(branch)):
        for alt in range(1,branch[i]):
            stack.append(ch+[0]*(i-len(ch))+[alt])
print(n,'schedules;',round(time.time()-T0,1),'s; outcomes:',seen)
