#!/bin/sh
# Build the Coq development from files on disk only (offline). Full .vo build.
set -e
cd "$(dirname "$0")/coq"
coq_makefile -f _CoqProject -o Makefile
timeout 3000 make -j16
